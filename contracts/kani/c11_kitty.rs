//@ target: src/image.rs
//@ attrs src/image.rs kitty_placement_id
//@| #[cfg_attr(kani, kani::requires(pos.row < 65536 && pos.col < 65536))]
//@| #[cfg_attr(kani, kani::ensures(|id: &u64| *id <= KITTY_MAX_ID && *id == pos.row as u64 + pos.col as u64 * 65536))]
//@ attrs src/image.rs kitty_placement_to_pos
//@| #[cfg_attr(kani, kani::ensures(|p: &Position| p.row as u64 == placement_id % 65536 && p.col as u64 == placement_id / 65536))]

impl kani::Arbitrary for Position {
    fn any() -> Self { Position { row: kani::any(), col: kani::any() } }
}

//# kind=contract tier=quick props=C11 fns=kitty_placement_id | contract of kitty_placement_id: for coordinates below 65536 the id is row + col*65536 and does not exceed the protocol maximum 2^32-1
#[kani::proof_for_contract(kitty_placement_id)]
#[kani::unwind(2)]
fn c11_placement_id_contract() {
    let pos: Position = kani::any();
    kitty_placement_id(pos);
}

//# kind=contract tier=quick props=C11 fns=kitty_placement_to_pos | contract of kitty_placement_to_pos: row = id mod 65536, col = id div 65536
#[kani::proof_for_contract(kitty_placement_to_pos)]
#[kani::unwind(2)]
fn c11_placement_to_pos_contract() {
    let id: u64 = kani::any();
    kitty_placement_to_pos(id);
}

//# kind=complete tier=quick props=C11 fns=kitty_placement_id,kitty_placement_to_pos | (from the two contracts) placement ids are injective on positions below 65536 and to_pos inverts id: erase(pos) addresses exactly the placement draw(pos) created, and no other position shares it
#[kani::proof]
#[kani::unwind(2)]
#[kani::stub_verified(kitty_placement_id)]
#[kani::stub_verified(kitty_placement_to_pos)]
fn c11_placement_pairing() {
    let p: Position = kani::any();
    let q: Position = kani::any();
    kani::assume(p.row < 65536 && p.col < 65536 && q.row < 65536 && q.col < 65536);
    let ip = kitty_placement_id(p);
    let iq = kitty_placement_id(q);
    assert!((ip == iq) == (p == q));
    assert!(kitty_placement_to_pos(ip) == p);
    assert!(ip <= KITTY_MAX_ID);
    kani::cover!(ip == KITTY_MAX_ID);
}
