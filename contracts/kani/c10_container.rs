//@ target: src/view/container.rs

use crate::view::{BoxConstraint, ViewLayoutStore, ViewMutLayout, Layout};

// The modular View contract, as a probe child: it checks the constraint it is handed (min <= max) and answers
// with ANY size inside that constraint - which is all a composite view may assume about its children.
struct Probe { h: usize, w: usize }
impl View for Probe {
    fn render(&self, _ctx: &ViewContext, _surf: TerminalSurface<'_>, _layout: ViewLayout<'_>) -> Result<(), Error> { Ok(()) }
    fn layout(&self, _ctx: &ViewContext, ct: BoxConstraint, mut layout: ViewMutLayout<'_>) -> Result<(), Error> {
        assert!(ct.min().height <= ct.max().height && ct.min().width <= ct.max().width);
        // any size inside the constraint (clamping a free value ranges over exactly those sizes, also when replayed natively)
        let h = self.h.clamp(ct.min().height, ct.max().height);
        let w = self.w.clamp(ct.min().width, ct.max().width);
        *layout = Layout::new().with_size(Size { height: h, width: w });
        Ok(())
    }
}

fn any_align() -> Align {
    let k: u8 = kani::any();
    kani::assume(k < 6);
    match k { 0 => Align::Start, 1 => Align::Center, 2 => Align::End, 3 => Align::Expand, 4 => Align::Shrink, _ => Align::Offset(kani::any()) }
}

//# kind=complete tier=quick props=C10 bound="container around ONE probe child that returns any size within the constraint it is given (the View contract); every container size, alignment pair, margins and constraint with min <= max" fns="<Container<V> as View>::layout,Align::align" | Container::layout terminates without panicking (no overflow in the margin / alignment arithmetic), reports a size within the constraint, and gives its child a constraint with min <= max
#[kani::proof]
#[kani::unwind(4)]
fn c10_container_probe_child() {
    let ctx = ViewContext::dummy();
    let min = Size { height: kani::any(), width: kani::any() };
    let max = Size { height: kani::any(), width: kani::any() };
    kani::assume(min.height <= max.height && min.width <= max.width);
    let ct = BoxConstraint::new(min, max);
    let c = Container::new(Probe { h: kani::any(), w: kani::any() })
        .with_size(Size { height: kani::any(), width: kani::any() })
        .with_vertical(any_align())
        .with_horizontal(any_align())
        .with_margins(Margins { left: kani::any(), right: kani::any(), top: kani::any(), bottom: kani::any() });
    let mut store = ViewLayoutStore::new();
    let mut layout = ViewMutLayout::new(&mut store, Layout::default());
    let r = c.layout(&ctx, ct, layout.view_mut());
    assert!(r.is_ok());
    let s = layout.size();
    assert!(s.height >= min.height && s.height <= max.height && s.width >= min.width && s.width <= max.width);
    kani::cover!(s.height > 0 && s.width > 0);
    std::mem::forget(r);
    std::mem::forget(layout);
    std::mem::forget(store);
    std::mem::forget(c);
}
