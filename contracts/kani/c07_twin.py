"""C07 bounded twin (counterexample provider, never counted as proved): a 3x4 owned surface holding 1..=12,
one symbolic sub-view (optionally of the transposed surface), ONE operation per harness, compared cell by
cell with the same selection on a plain matrix. One harness per (transposed?, operation) keeps each CBMC
problem small."""

HEAD = r'''//@ target: src/surface.rs

const H: usize = 3;
const W: usize = 4;

fn py_norm(x: i64, n: i64) -> i64 { if x < 0 { if x + n < 0 { 0 } else { x + n } } else if x > n { n } else { x } }
fn py_range(a: i64, b: i64, n: usize) -> (usize, usize) {
    let s = py_norm(a, n as i64);
    let e = py_norm(b, n as i64);
    if s < e { (s as usize, e as usize) } else { (0, 0) }
}
fn fresh() -> SurfaceOwned<u8> {
    SurfaceOwned::new_with(Size { height: H, width: W }, |p| (p.row * W + p.col + 1) as u8)
}
fn any_bound() -> i64 { let x: i8 = kani::any(); kani::assume(x >= -5 && x <= 5); x as i64 }
// view coordinates of root cell (r, c) if it lies in the window rows rw, cols cw of the (transposed?) matrix
fn in_window(t: bool, r: usize, c: usize, rw: (usize, usize), cw: (usize, usize)) -> Option<(usize, usize)> {
    let (vr, vc) = if t { (c, r) } else { (r, c) };
    if vr >= rw.0 && vr < rw.1 && vc >= cw.0 && vc < cw.1 { Some((vr - rw.0, vc - cw.0)) } else { None }
}
// root value of view cell (i, j) of the window
fn root_value(t: bool, rw: (usize, usize), cw: (usize, usize), i: usize, j: usize) -> u8 {
    let (rr, cc) = if t { (cw.0 + j, rw.0 + i) } else { (rw.0 + i, cw.0 + j) };
    (rr * W + cc + 1) as u8
}
'''

OPS = {
    "fill": ("v.fill(99);", "SurfaceMut::fill"),
    "clear": ("v.clear();", "SurfaceMut::clear"),
    "insert": ("v.insert(ins_pos, [71u8, 72, 73]);", "SurfaceMut::insert,SurfaceMutIter::nth"),
    "get": ("got_probe = v.get(probe).copied();", "Surface::get"),
    "get_mut": ("got_probe = v.get_mut(probe).map(|c| *c);", "SurfaceMut::get_mut"),
    "fill_with": ("v.fill_with(|_pos, old| old + 100);", "SurfaceMut::fill_with"),
    "iter": ("for (i, x) in v.iter().enumerate() { count += 1; if ww > 0 && *x != root_value(T, rw, cw, i / ww, i % ww) { order_ok = false; } }", "Surface::iter,SurfaceIter::nth"),
}

def harness(t, op):
    code, fns = OPS[op]
    tname = "transposed" if t else "plain"
    base = "let mut base = (&mut surf).transpose();" if t else "let mut base = &mut surf;"
    return '''
//# kind=bounded tier=quick props=C07 bound="3x4 surface, view(a..b, c..d) with bounds in -5..=5 on the %s surface, operation %s" fns="%s,SurfaceMut::view_mut,Shape::view" | %s through a %s sub-view touches / reads exactly the cells the same selection denotes on a plain matrix; everything outside is untouched
#[kani::proof]
#[kani::unwind(14)]
fn c07_twin_%s_%s() {
    const T: bool = %s;
    let (ra, rb, ca, cb) = (any_bound(), any_bound(), any_bound(), any_bound());
    let (vh, vw) = if T { (W, H) } else { (H, W) };
    let rw = py_range(ra, rb, vh);
    let cw = py_range(ca, cb, vw);
    let empty = rw.0 == rw.1 || cw.0 == cw.1;
    let wh = if empty { 0 } else { rw.1 - rw.0 };
    let ww = if empty { 0 } else { cw.1 - cw.0 };
    let mut surf = fresh();
    let ins_pos = Position { row: kani::any(), col: kani::any() };
    kani::assume(ins_pos.row < 4 && ins_pos.col < 4);
    kani::assume(empty || (ins_pos.row < wh && ins_pos.col < ww)); // start position inside the window
    let probe = Position { row: kani::any(), col: kani::any() };
    kani::assume(probe.row < 5 && probe.col < 5);
    let mut got_probe: Option<u8> = None;
    let mut count = 0usize;
    let mut order_ok = true;
    {
        %s
        let mut v = base.view_mut((ra as isize)..(rb as isize), (ca as isize)..(cb as isize));
        assert!(v.height() == wh && v.width() == ww);
        %s
    }
    let data = surf.to_vec();
    let mut r = 0;
    while r < H {
        let mut c = 0;
        while c < W {
            let old = (r * W + c + 1) as u8;
            let cell = data[r * W + c];
            let inside = if empty { None } else { in_window(T, r, c, rw, cw) };
            match ("%s", inside) {
                ("fill", Some(_)) => assert!(cell == 99),
                ("clear", Some(_)) => assert!(cell == 0),
                ("fill_with", Some(_)) => assert!(cell == old + 100),
                ("insert", Some((vr, vc))) => {
                    let k = vr * ww + vc;
                    let k0 = ins_pos.row * ww + ins_pos.col;
                    if k >= k0 && k < k0 + 3 { assert!(cell == 71 + (k - k0) as u8); } else { assert!(cell == old); }
                }
                _ => assert!(cell == old),
            }
            c += 1;
        }
        r += 1;
    }
    if "%s" == "get" || "%s" == "get_mut" {
        let want = if !empty && probe.row < wh && probe.col < ww { Some(root_value(T, rw, cw, probe.row, probe.col)) } else { None };
        assert!(got_probe == want);
    }
    if "%s" == "iter" { assert!(count == wh * ww && order_ok); }
    kani::cover!(wh == 2 && ww == 2);
}
''' % (tname, op, fns, op, tname, tname, op, "true" if t else "false", base, code, op, op, op, op)

def chain_harness(t, op):
    """depth-2 chain: view of a view (thorough tier)"""
    code, fns = OPS[op]
    tname = "transposed" if t else "plain"
    base = "let mut base = (&mut surf).transpose();" if t else "let mut base = &mut surf;"
    return '''
//# kind=bounded tier=thorough props=C07 bound="3x4 surface, chain of two view(a..b, c..d) calls with bounds in -4..=4 on the %s surface, operation %s" fns="%s,SurfaceMut::view_mut,Shape::view" | a view of a view denotes the composition of the two selections: %s through it touches / reads exactly those cells
#[kani::proof]
#[kani::unwind(14)]
fn c07_chain_%s_%s() {
    const T: bool = %s;
    let b = || -> i64 { let x: i8 = kani::any(); kani::assume(x >= -4 && x <= 4); x as i64 };
    let (ra, rb, ca, cb) = (b(), b(), b(), b());
    let (ra2, rb2, ca2, cb2) = (b(), b(), b(), b());
    let (vh, vw) = if T { (W, H) } else { (H, W) };
    let rw1 = py_range(ra, rb, vh);
    let cw1 = py_range(ca, cb, vw);
    let e1 = rw1.0 == rw1.1 || cw1.0 == cw1.1;
    let (h1, w1) = if e1 { (0, 0) } else { (rw1.1 - rw1.0, cw1.1 - cw1.0) };
    let rw2 = py_range(ra2, rb2, h1);
    let cw2 = py_range(ca2, cb2, w1);
    let empty = e1 || rw2.0 == rw2.1 || cw2.0 == cw2.1;
    // composed window in the coordinates of the (transposed?) 3x4 matrix
    let rw = (rw1.0 + rw2.0, rw1.0 + rw2.1);
    let cw = (cw1.0 + cw2.0, cw1.0 + cw2.1);
    let wh = if empty { 0 } else { rw.1 - rw.0 };
    let ww = if empty { 0 } else { cw.1 - cw.0 };
    let mut surf = fresh();
    let ins_pos = Position { row: kani::any(), col: kani::any() };
    kani::assume(ins_pos.row < 4 && ins_pos.col < 4);
    kani::assume(empty || (ins_pos.row < wh && ins_pos.col < ww));
    let probe = Position { row: kani::any(), col: kani::any() };
    kani::assume(probe.row < 5 && probe.col < 5);
    let mut got_probe: Option<u8> = None;
    let mut count = 0usize;
    let mut order_ok = true;
    {
        %s
        let mut v1 = base.view_mut((ra as isize)..(rb as isize), (ca as isize)..(cb as isize));
        let mut v = v1.view_mut((ra2 as isize)..(rb2 as isize), (ca2 as isize)..(cb2 as isize));
        assert!(v.height() == wh && v.width() == ww);
        %s
    }
    let data = surf.to_vec();
    let mut r = 0;
    while r < H {
        let mut c = 0;
        while c < W {
            let old = (r * W + c + 1) as u8;
            let cell = data[r * W + c];
            let inside = if empty { None } else { in_window(T, r, c, rw, cw) };
            match ("%s", inside) {
                ("fill", Some(_)) => assert!(cell == 99),
                ("clear", Some(_)) => assert!(cell == 0),
                _ => assert!(cell == old),
            }
            c += 1;
        }
        r += 1;
    }
    if "%s" == "get" {
        let want = if !empty && probe.row < wh && probe.col < ww { Some(root_value(T, rw, cw, probe.row, probe.col)) } else { None };
        assert!(got_probe == want);
    }
    kani::cover!(wh >= 1 && ww == 2);
}
''' % (tname, op, fns, op, tname, op, "true" if t else "false", base, code, op, op)

parts = [HEAD]
for t in (False, True):
    for op in ("fill", "get"):
        parts.append(chain_harness(t, op))
for t in (False, True):
    for op in ("fill", "clear", "insert", "get", "iter", "get_mut", "fill_with"):
        parts.append(harness(t, op))
TEXT = "\n".join(parts)
