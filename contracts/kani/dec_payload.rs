//@ target: src/decoder.rs

// ---------------------------------------------------------------------------------------------
// Modular stand-in for `number_decode`, justified by its Verus contract (unit `numdec`):
//   number_decode(d) == Some(min(dec(d), usize::MAX)) if d is all ASCII digits (Some(0) if empty), else None.
// Harness buffers carry ONE marker digit ('1'..'9') per numeric field; the stub maps marker k to the
// harness-chosen symbolic value VALS[k]. The payload decoder is thereby exercised for EVERY numeric value,
// and a value landing in the wrong field is observable because fields use distinct markers.
static mut VALS: [usize; 10] = [0; 10];
fn number_decode_stub(data: &[u8]) -> Option<usize> {
    if data.len() == 0 {
        Some(0)
    } else if data.len() == 1 && data[0] >= b'0' && data[0] <= b'9' {
        Some(unsafe { VALS[(data[0] - b'0') as usize] })
    } else {
        // harness buffers never contain other digit strings; anything else is a non-number
        let mut i = 0;
        while i < data.len() {
            if !(data[i] >= b'0' && data[i] <= b'9') { return None; }
            i += 1;
        }
        Some(kani::any())
    }
}
fn set_vals() -> [usize; 10] {
    let v: [usize; 10] = kani::any();
    unsafe { VALS = v; }
    v
}

//# kind=complete tier=quick props=C02,C04 fns=keyboard_decode_key | keyboard_decode_key(code) never panics; Char(c) only for Unicode scalar values outside the private-use block with c as u32 == code; F(n) has 13 <= n <= 35; named keys per kitty table; everything else None (all usize)
#[kani::proof]
#[kani::unwind(2)]
fn c02_keyboard_decode_key() {
    let code: usize = kani::any();
    match keyboard_decode_key(code) {
        Some(KeyName::Esc) => assert!(code == 27),
        Some(KeyName::Enter) => assert!(code == 13),
        Some(KeyName::Tab) => assert!(code == 9),
        Some(KeyName::Backspace) => assert!(code == 127),
        Some(KeyName::F(n)) => assert!(code >= 57376 && code <= 57398 && n == code - 57376 + 13),
        Some(KeyName::Char(c)) => {
            assert!(c as usize == code);
            assert!(!(code >= 57344 && code <= 63743));
            assert!(code <= 0x10FFFF && !(code >= 0xD800 && code <= 0xDFFF));
        }
        Some(_) => assert!(false),
        None => assert!(
            (code >= 57344 && code <= 63743 && !(code >= 57376 && code <= 57398))
                || code > 0x10FFFF || (code >= 0xD800 && code <= 0xDFFF)
        ),
    }
    kani::cover!(matches!(keyboard_decode_key(code), Some(KeyName::Char(_))));
}

// xterm 256-colour palette, written from the xterm formula (not from the tables in decoder.rs)
fn xterm256(i: usize) -> (u8, u8, u8) {
    if i < 16 {
        let sys: [(u8, u8, u8); 16] = [
            (0, 0, 0), (128, 0, 0), (0, 128, 0), (128, 128, 0), (0, 0, 128), (128, 0, 128), (0, 128, 128), (192, 192, 192),
            (128, 128, 128), (255, 0, 0), (0, 255, 0), (255, 255, 0), (0, 0, 255), (255, 0, 255), (0, 255, 255), (255, 255, 255),
        ];
        sys[i]
    } else if i < 232 {
        let j = i - 16;
        let lvl = |k: usize| -> u8 { if k == 0 { 0 } else { (55 + 40 * k) as u8 } };
        (lvl(j / 36), lvl((j / 6) % 6), lvl(j % 6))
    } else {
        let v = (8 + 10 * (i - 232)) as u8;
        (v, v, v)
    }
}

//# kind=complete tier=quick props=C04,C02 fns=sgr_color | sgr_color over any argument list (0..=6 numeric fields, every value): `5;n` is the xterm-256 colour n (n<256) else None; `2;r;g;b` and `2;x;r;g;b` are exactly (r,g,b) when each <= 255, and never a wrapped-around component; anything else None; no panic
#[kani::proof]
#[kani::unwind(8)]
#[kani::stub(number_decode, number_decode_stub)]
fn c04_sgr_color() {
    let v = set_vals();
    let n: usize = kani::any();
    kani::assume(n <= 6);
    let fields: [&[u8]; 6] = [b"1", b"2", b"3", b"4", b"5", b"6"];
    let got = sgr_color(fields[..n].iter().copied());
    let arg = |k: usize| -> Option<usize> { if k <= n { Some(v[k]) } else { None } };
    if n >= 2 && v[1] == 5 {
        if v[2] < 256 {
            let (r, g, b) = xterm256(v[2]);
            assert!(got == Some(RGBA::new(r, g, b, 255)));
        } else {
            assert!(got.is_none());
        }
    } else if n >= 1 && v[1] == 2 {
        match got {
            Some(c) => {
                // exactly the transmitted components (3- or 4-field form); out-of-range values may only be clamped, never wrapped
                let cl = |x: usize| -> u8 { if x > 255 { 255 } else { x as u8 } };
                let three = n == 4 && c == RGBA::new(cl(v[2]), cl(v[3]), cl(v[4]), 255);
                let four = n >= 5 && c == RGBA::new(cl(v[3]), cl(v[4]), cl(v[5]), 255);
                assert!(three || four);
            }
            None => {
                // a complete, in-range true-colour form must be recognised
                assert!(!(n == 4 && v[2] <= 255 && v[3] <= 255 && v[4] <= 255));
                assert!(!(n >= 5 && v[3] <= 255 && v[4] <= 255 && v[5] <= 255));
            }
        }
    } else {
        assert!(got.is_none());
    }
    kani::cover!(got.is_some() && n == 5);
    kani::cover!(got.is_some() && n == 2 && v[2] > 231);
}

// ---------------------------------------------------------------------------------------------
// Reference SGR interpreter (ECMA-48 / xterm ctlseqs / kitty underline extension), written on byte
// indices only. Input alphabet: marker digits, ';' and ':'; no two digits adjacent (one marker per field).
// `defined == false` marks inputs whose meaning the property does not fix (codes FaceModify cannot express:
// 7/27 reverse, 39/49/59 default colours, 2/8/28 faint/conceal, 6/26 rapid blink; 21 whose meaning differs between
// ECMA-48 "double underline" and the widespread "bold off"; malformed extended-colour forms; underline
// sub-styles > 5): the harness does not compare those.
struct RefSgr { face: FaceModify, defined: bool }

fn ref_val(buf: &[u8], lo: usize, hi: usize, v: &[usize; 10]) -> usize {
    if lo >= hi { 0 } else { v[(buf[lo] - b'0') as usize] }
}
// k-th `sep`-separated field of buf[lo..hi): (start, end); None if there are fewer fields
fn ref_field(buf: &[u8], lo: usize, hi: usize, sep: u8, k: usize) -> Option<(usize, usize)> {
    let mut idx = 0;
    let mut start = lo;
    let mut i = lo;
    while i <= hi {
        if i == hi || buf[i] == sep {
            if idx == k { return Some((start, i)); }
            idx += 1;
            start = i + 1;
        }
        i += 1;
    }
    None
}
fn ref_count(buf: &[u8], lo: usize, hi: usize, sep: u8) -> usize {
    let mut n = 1;
    let mut i = lo;
    while i < hi { if buf[i] == sep { n += 1; } i += 1; }
    n
}
fn ref_ansi(i: usize) -> RGBA { let (r, g, b) = xterm256(i); RGBA::new(r, g, b, 255) }

fn ref_sgr(buf: &[u8], len: usize, v: &[usize; 10]) -> RefSgr {
    let mut out = RefSgr { face: FaceModify::default(), defined: true };
    let ngroups = ref_count(buf, 0, len, b';');
    let mut gi = 0;
    while gi < ngroups {
        let (gs, ge) = ref_field(buf, 0, len, b';', gi).unwrap();
        let nsub = ref_count(buf, gs, ge, b':');
        let sub = |k: usize| -> usize { let (a, b) = ref_field(buf, gs, ge, b':', k).unwrap(); ref_val(buf, a, b, v) };
        let code = sub(0);
        let mut consumed = 1;
        match code {
            0 => out.face = FaceModify { reset: true, ..FaceModify::default() },
            1 => out.face.bold = Some(true),
            22 => out.face.bold = Some(false),
            3 => out.face.italic = Some(true),
            23 => out.face.italic = Some(false),
            5 => out.face.blink = Some(true),
            25 => out.face.blink = Some(false),
            9 => out.face.strike = Some(true),
            29 => out.face.strike = Some(false),
            24 => out.face.underline = Some(UnderlineStyle::None),
            4 => {
                out.face.underline = Some(if nsub >= 2 {
                    match sub(1) {
                        0 => UnderlineStyle::None,
                        1 => UnderlineStyle::Straight,
                        2 => UnderlineStyle::Double,
                        3 => UnderlineStyle::Curly,
                        4 => UnderlineStyle::Dotted,
                        5 => UnderlineStyle::Dashed,
                        _ => { out.defined = false; UnderlineStyle::Straight }
                    }
                } else { UnderlineStyle::Straight });
            }
            30..=37 => out.face.fg = Some(ref_ansi(code - 30)),
            90..=97 => out.face.fg = Some(ref_ansi(code - 90 + 8)),
            40..=47 => out.face.bg = Some(ref_ansi(code - 40)),
            100..=107 => out.face.bg = Some(ref_ansi(code - 100 + 8)),
            38 | 48 | 58 => {
                let mut color: Option<RGBA> = None;
                if nsub >= 2 {
                    let mode = sub(1);
                    if mode == 5 && nsub == 3 && sub(2) < 256 {
                        color = Some(ref_ansi(sub(2)));
                    } else if mode == 2 && nsub == 5 && sub(2) <= 255 && sub(3) <= 255 && sub(4) <= 255 {
                        color = Some(RGBA::new(sub(2) as u8, sub(3) as u8, sub(4) as u8, 255));
                    } else if mode == 2 && nsub == 6 && sub(3) <= 255 && sub(4) <= 255 && sub(5) <= 255 {
                        color = Some(RGBA::new(sub(3) as u8, sub(4) as u8, sub(5) as u8, 255));
                    }
                } else {
                    // semicolon form: the following groups (plain numbers) carry mode and components
                    let g = |k: usize| -> Option<usize> {
                        if gi + k >= ngroups { return None; }
                        let (a, b) = ref_field(buf, 0, len, b';', gi + k).unwrap();
                        if ref_count(buf, a, b, b':') != 1 { return None; }
                        Some(ref_val(buf, a, b, v))
                    };
                    match g(1) {
                        Some(5) => if let Some(n) = g(2) { if n < 256 { color = Some(ref_ansi(n)); consumed = 3; } },
                        Some(2) => if let (Some(r), Some(gr), Some(b)) = (g(2), g(3), g(4)) {
                            if r <= 255 && gr <= 255 && b <= 255 { color = Some(RGBA::new(r as u8, gr as u8, b as u8, 255)); consumed = 5; }
                        },
                        _ => {}
                    }
                }
                if color.is_none() { out.defined = false; }
                if code == 38 { out.face.fg = color; } else if code == 48 { out.face.bg = color; } else { out.face.underline_color = color; }
            }
            2 | 6 | 7 | 8 | 20 | 21 | 26 | 27 | 28 | 39 | 49 | 59 => out.defined = false,
            _ => {} // unknown codes are ignored
        }
        gi += consumed;
    }
    out
}

fn sgr_buffer<const N: usize>() -> ([u8; N], usize) {
    let buf: [u8; N] = kani::any();
    let len: usize = kani::any();
    kani::assume(len <= N);
    let mut i = 0;
    while i < N {
        let c = buf[i];
        kani::assume((c >= b'1' && c <= b'9') || c == b';' || c == b':');
        if i > 0 { kani::assume(!(c >= b'1' && c <= b'9' && buf[i - 1] >= b'1' && buf[i - 1] <= b'9')); }
        i += 1;
    }
    (buf, len)
}

//# kind=bounded tier=quick props=C06 bound="SGR parameter strings of <= 5 bytes over {number, ;, :} (<= 3 groups), every numeric value" fns=sgr_face,sgr_color | sgr_face(params) equals the reference SGR interpreter: later parameters override earlier ones, 0/empty resets, colon and semicolon extended-colour forms, unknown codes ignored
#[kani::proof]
#[kani::unwind(10)]
#[kani::stub(number_decode, number_decode_stub)]
fn c06_sgr_face_bounded5() {
    let v = set_vals();
    let (buf, len) = sgr_buffer::<5>();
    let want = ref_sgr(&buf, len, &v);
    kani::assume(want.defined);
    let got = sgr_face(&buf[..len]);
    assert!(got == want.face);
    kani::cover!(len == 5 && got.fg.is_some());
    kani::cover!(len == 5 && got.reset && got.bold == Some(true));
}
