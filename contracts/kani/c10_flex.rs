//@ target: src/view/flex.rs

use crate::view::{BoxConstraint, ViewLayoutStore, ViewMutLayout, Layout};

// The modular View contract as a probe child: checks the constraint it is handed (min <= max) and answers with ANY
// size inside it.
struct Probe { h: usize, w: usize }
impl View for Probe {
    fn render(&self, _ctx: &ViewContext, _surf: TerminalSurface<'_>, _layout: ViewLayout<'_>) -> Result<(), Error> { Ok(()) }
    fn layout(&self, _ctx: &ViewContext, ct: BoxConstraint, mut layout: ViewMutLayout<'_>) -> Result<(), Error> {
        assert!(ct.min().height <= ct.max().height && ct.min().width <= ct.max().width);
        // any size inside the constraint (clamping a free value ranges over exactly those sizes, also when replayed natively)
        let h = self.h.clamp(ct.min().height, ct.max().height);
        let w = self.w.clamp(ct.min().width, ct.max().width);
        *layout = Layout::new().with_size(Size { height: h, width: w });
        Ok(())
    }
}
fn any_probe() -> Probe { Probe { h: kani::any(), w: kani::any() } }
fn any_child_align() -> Align {
    let k: u8 = kani::any();
    kani::assume(k < 5);
    match k { 0 => Align::Start, 1 => Align::Center, 2 => Align::End, 3 => Align::Expand, _ => Align::Shrink }
}

fn any_axis() -> Axis { if kani::any() { Axis::Horizontal } else { Axis::Vertical } }
fn any_justify() -> Justify {
    let k: u8 = kani::any();
    kani::assume(k < 6);
    match k { 0 => Justify::Start, 1 => Justify::Center, 2 => Justify::End, 3 => Justify::SpaceBetween, 4 => Justify::SpaceAround, _ => Justify::SpaceEvenly }
}
fn any_ct() -> (Size, Size, BoxConstraint) {
    let min = Size { height: kani::any(), width: kani::any() };
    let max = Size { height: kani::any(), width: kani::any() };
    kani::assume(min.height <= max.height && min.width <= max.width);
    (min, max, BoxConstraint::new(min, max))
}

//# kind=bounded tier=quick props=C10 bound="flex with zero children; every direction, justification and constraint with min <= max" fns=flex_layout | laying out an empty flex terminates without panicking (no division by the number of children) and reports a size within the constraint
#[kani::proof]
#[kani::unwind(4)]
fn c10_flex_zero_children() {
    let ctx = ViewContext::dummy();
    let (min, max, ct) = any_ct();
    let mut store = ViewLayoutStore::new();
    let mut layout = ViewMutLayout::new(&mut store, Layout::default());
    let children: [FlexChild<()>; 0] = [];
    let r = flex_layout(any_axis(), any_justify(), children, &ctx, ct, layout.view_mut());
    assert!(r.is_ok());
    let s = layout.size();
    assert!(s.height >= min.height && s.height <= max.height && s.width >= min.width && s.width <= max.width);
    kani::cover!(max.width > 0);
    std::mem::forget(r);
    std::mem::forget(layout);
    std::mem::forget(store);
}

//# kind=bounded tier=quick props=C10 bound="flex with one non-flex probe child (any size within the constraint it is given); every direction, justification, alignment and constraint with min <= max" fns=flex_layout | laying out a one-child flex terminates without panicking and reports a size within the constraint
#[kani::proof]
#[kani::unwind(5)]
fn c10_flex_one_child() {
    let ctx = ViewContext::dummy();
    let (min, max, ct) = any_ct();
    let mut store = ViewLayoutStore::new();
    let mut layout = ViewMutLayout::new(&mut store, Layout::default());
    let children: [FlexChild<Probe>; 1] = [FlexChild::new(any_probe()).align(any_child_align())];
    let r = flex_layout(any_axis(), any_justify(), children, &ctx, ct, layout.view_mut());
    assert!(r.is_ok());
    let s = layout.size();
    assert!(s.height >= min.height && s.height <= max.height && s.width >= min.width && s.width <= max.width);
    kani::cover!(max.width > 0);
    std::mem::forget(r);
    std::mem::forget(layout);
    std::mem::forget(store);
}

// (two or more children, flex factors: CBMC's memory grows past 12 GB within two minutes - the SmallVec layout arena
//  with several nodes plus symbolic sizes - so those configurations are not explored)

//# kind=bounded tier=quick props=C10 bound="flex with one flex child (factor 1.0) that is a probe child (any size within the constraint it is given); every direction, justification, alignment and constraint with min <= max" fns=flex_layout | laying out a one-flex-child flex terminates without panicking - in particular when the share computed in f64 rounds up past the remaining space under a maximum near usize::MAX - and reports a size within the constraint
#[kani::proof]
#[kani::unwind(5)]
fn c10_flex_one_flex_child() {
    let ctx = ViewContext::dummy();
    let (min, max, ct) = any_ct();
    let mut store = ViewLayoutStore::new();
    let mut layout = ViewMutLayout::new(&mut store, Layout::default());
    let children: [FlexChild<Probe>; 1] = [FlexChild::new(any_probe()).align(any_child_align()).flex(1.0)];
    let r = flex_layout(any_axis(), any_justify(), children, &ctx, ct, layout.view_mut());
    assert!(r.is_ok());
    let s = layout.size();
    assert!(s.height >= min.height && s.height <= max.height && s.width >= min.width && s.width <= max.width);
    kani::cover!(max.width > 0);
    std::mem::forget(r);
    std::mem::forget(layout);
    std::mem::forget(store);
}
