//@ target: src/view/flex.rs

use crate::view::{BoxConstraint, ViewLayoutStore, ViewMutLayout, Layout};
use crate::surface::Surface as _;
use crate::render::Cell as KCell;

// The modular View contract as a probe child: checks the constraint it is handed (min <= max) and answers with ANY
// size inside it.
struct Probe { h: usize, w: usize }
impl View for Probe {
    fn render(&self, _ctx: &ViewContext, _surf: TerminalSurface<'_>, _layout: ViewLayout<'_>) -> Result<(), Error> { Ok(()) }
    fn layout(&self, _ctx: &ViewContext, ct: BoxConstraint, mut layout: ViewMutLayout<'_>) -> Result<(), Error> {
        assert!(ct.min().height <= ct.max().height && ct.min().width <= ct.max().width);
        // any size inside the constraint (clamping a free value ranges over exactly those sizes, also when replayed natively)
        let h = self.h.clamp(ct.min().height, ct.max().height);
        let w = self.w.clamp(ct.min().width, ct.max().width);
        *layout = Layout::new().with_size(Size { height: h, width: w });
        Ok(())
    }
}
fn any_probe() -> Probe { Probe { h: kani::any(), w: kani::any() } }
fn any_child_align() -> Align {
    let k: u8 = kani::any();
    kani::assume(k < 5);
    match k { 0 => Align::Start, 1 => Align::Center, 2 => Align::End, 3 => Align::Expand, _ => Align::Shrink }
}

fn any_axis() -> Axis { if kani::any() { Axis::Horizontal } else { Axis::Vertical } }
fn any_justify() -> Justify {
    let k: u8 = kani::any();
    kani::assume(k < 6);
    match k { 0 => Justify::Start, 1 => Justify::Center, 2 => Justify::End, 3 => Justify::SpaceBetween, 4 => Justify::SpaceAround, _ => Justify::SpaceEvenly }
}
fn any_ct() -> (Size, Size, BoxConstraint) {
    let min = Size { height: kani::any(), width: kani::any() };
    let max = Size { height: kani::any(), width: kani::any() };
    kani::assume(min.height <= max.height && min.width <= max.width);
    (min, max, BoxConstraint::new(min, max))
}

//# kind=bounded tier=quick props=C10 bound="flex with zero children; every direction, justification and constraint with min <= max" fns=flex_layout | laying out an empty flex terminates without panicking (no division by the number of children) and reports a size within the constraint
#[kani::proof]
#[kani::unwind(4)]
fn c10_flex_zero_children() {
    let ctx = ViewContext::dummy();
    let (min, max, ct) = any_ct();
    let mut store = ViewLayoutStore::new();
    let mut layout = ViewMutLayout::new(&mut store, Layout::default());
    let children: [FlexChild<()>; 0] = [];
    let r = flex_layout(any_axis(), any_justify(), children, &ctx, ct, layout.view_mut());
    assert!(r.is_ok());
    let s = layout.size();
    assert!(s.height >= min.height && s.height <= max.height && s.width >= min.width && s.width <= max.width);
    kani::cover!(max.width > 0);
    std::mem::forget(r);
    std::mem::forget(layout);
    std::mem::forget(store);
}

//# kind=bounded tier=quick props=C10 bound="flex with one non-flex probe child (any size within the constraint it is given); every direction, justification, alignment and constraint with min <= max" fns=flex_layout | laying out a one-child flex terminates without panicking and reports a size within the constraint
#[kani::proof]
#[kani::unwind(5)]
fn c10_flex_one_child() {
    let ctx = ViewContext::dummy();
    let (min, max, ct) = any_ct();
    let mut store = ViewLayoutStore::new();
    let mut layout = ViewMutLayout::new(&mut store, Layout::default());
    let children: [FlexChild<Probe>; 1] = [FlexChild::new(any_probe()).align(any_child_align())];
    let r = flex_layout(any_axis(), any_justify(), children, &ctx, ct, layout.view_mut());
    assert!(r.is_ok());
    let s = layout.size();
    assert!(s.height >= min.height && s.height <= max.height && s.width >= min.width && s.width <= max.width);
    kani::cover!(max.width > 0);
    std::mem::forget(r);
    std::mem::forget(layout);
    std::mem::forget(store);
}

// (two or more children, flex factors: CBMC's memory grows past 12 GB within two minutes - the SmallVec layout arena
//  with several nodes plus symbolic sizes - so those configurations are not explored)

//# kind=bounded tier=quick props=C10 bound="flex with one flex child (factor 1.0) that is a probe child (any size within the constraint it is given); every direction, justification, alignment and constraint with min <= max" fns=flex_layout | laying out a one-flex-child flex terminates without panicking - in particular when the share computed in f64 rounds up past the remaining space under a maximum near usize::MAX - and reports a size within the constraint
#[kani::proof]
#[kani::unwind(5)]
fn c10_flex_one_flex_child() {
    let ctx = ViewContext::dummy();
    let (min, max, ct) = any_ct();
    let mut store = ViewLayoutStore::new();
    let mut layout = ViewMutLayout::new(&mut store, Layout::default());
    let children: [FlexChild<Probe>; 1] = [FlexChild::new(any_probe()).align(any_child_align()).flex(1.0)];
    let r = flex_layout(any_axis(), any_justify(), children, &ctx, ct, layout.view_mut());
    assert!(r.is_ok());
    let s = layout.size();
    assert!(s.height >= min.height && s.height <= max.height && s.width >= min.width && s.width <= max.width);
    kani::cover!(max.width > 0);
    std::mem::forget(r);
    std::mem::forget(layout);
    std::mem::forget(store);
}

// ---------------------------------------------------------------- rendering: what the child is handed
// The View contract on the rendering side: a child is rendered with the PARENT's area (it applies its own layout itself)
// and with its OWN layout node. The recording child logs the shape of the surface and the layout it receives.
static mut R_CALLS: usize = 0;
static mut R_SHAPE: [usize; 6] = [0; 6];
static mut R_POS: (usize, usize) = (0, 0);
static mut R_SIZE: (usize, usize) = (0, 0);
struct RecView;
impl View for RecView {
    fn render(&self, _ctx: &ViewContext, surf: TerminalSurface<'_>, layout: ViewLayout<'_>) -> Result<(), Error> {
        unsafe {
            R_CALLS += 1;
            let s = surf.shape();
            R_SHAPE = [s.start, s.end, s.width, s.height, s.row_stride, s.col_stride];
            R_POS = (layout.position().row, layout.position().col);
            R_SIZE = (layout.size().height, layout.size().width);
        }
        Ok(())
    }
    fn layout(&self, _ctx: &ViewContext, _ct: BoxConstraint, _layout: ViewMutLayout<'_>) -> Result<(), Error> { Ok(()) }
}

//# kind=bounded tier=quick props=C10 bound="flex with one child without a fill face, over a dense 6x8 surface (cells never touched, so no cell storage); every direction, every flex rectangle and every child rectangle" fns=flex_render | flex_render hands a non-empty child exactly the flex's own rectangle of the surface (Layout::apply_to of the flex layout, the child applies its own layout itself) together with the child's own layout node, once; an empty child is not rendered
#[kani::proof]
#[kani::unwind(4)]
fn c10_flex_render_one_child() {
    use crate::surface::{Shape, SurfaceMutView};
    let ctx = ViewContext::dummy();
    let (h, w): (usize, usize) = (6, 8);
    let shape = Shape { start: 0, end: h * w, width: w, height: h, row_stride: w, col_stride: 1 };
    let root = Layout::new()
        .with_position(Position { row: kani::any(), col: kani::any() })
        .with_size(Size { height: kani::any(), width: kani::any() });
    let cpos = Position { row: kani::any(), col: kani::any() };
    let csize = Size { height: kani::any(), width: kani::any() };
    let mut e0: [KCell; 0] = [];
    let mut e1: [KCell; 0] = [];
    let expect = root.apply_to(SurfaceMutView::new(shape, &mut e0[..])).shape();
    let mut store = ViewLayoutStore::new();
    let mut layout = ViewMutLayout::new(&mut store, root);
    {
        let mut child = layout.push_default();
        *child = Layout::new().with_position(cpos).with_size(csize);
    }
    let children: [FlexChild<RecView>; 1] = [FlexChild::new(RecView)];
    let r = flex_render(any_axis(), children, &ctx, SurfaceMutView::new(shape, &mut e1[..]), layout.view());
    assert!(r.is_ok());
    unsafe {
        if csize.height == 0 || csize.width == 0 {
            assert!(R_CALLS == 0);
        } else {
            assert!(R_CALLS == 1);
            assert!(R_SHAPE[0] == expect.start && R_SHAPE[1] == expect.end);
            assert!(R_SHAPE[2] == expect.width && R_SHAPE[3] == expect.height);
            assert!(R_SHAPE[4] == expect.row_stride && R_SHAPE[5] == expect.col_stride);
            assert!(R_POS.0 == cpos.row && R_POS.1 == cpos.col && R_SIZE.0 == csize.height && R_SIZE.1 == csize.width);
        }
        kani::cover!(R_CALLS == 1 && expect.width > 0 && expect.height > 0);
    }
    std::mem::forget(r);
    std::mem::forget(layout);
    std::mem::forget(store);
}

//# kind=bounded tier=quick props=C10 bound="flex with one child WITH a fill face, over a dense surface of zero rows and 8 columns (no cell exists, so the fill touches nothing); every direction, every flex rectangle and EVERY child rectangle, including ones whose position + size exceeds usize::MAX (flex_layout produces such rectangles for children that fill an unbounded constraint)" fns=flex_render | computing the strip a child's fill face is applied to never panics (no overflow in start + extent), and the child is still handed the flex's own area and its own layout node
#[kani::proof]
#[kani::unwind(4)]
fn c10_flex_render_fill_strip_arith() {
    use crate::surface::{Shape, SurfaceMutView};
    use crate::{Face, FaceAttrs};
    let ctx = ViewContext::dummy();
    let shape = Shape { start: 0, end: 0, width: 8, height: 0, row_stride: 8, col_stride: 1 };
    let root = Layout::new()
        .with_position(Position { row: kani::any(), col: kani::any() })
        .with_size(Size { height: kani::any(), width: kani::any() });
    let cpos = Position { row: kani::any(), col: kani::any() };
    let csize = Size { height: kani::any(), width: kani::any() };
    let mut e0: [KCell; 0] = [];
    let mut e1: [KCell; 0] = [];
    let expect = root.apply_to(SurfaceMutView::new(shape, &mut e0[..])).shape();
    let mut store = ViewLayoutStore::new();
    let mut layout = ViewMutLayout::new(&mut store, root);
    {
        let mut child = layout.push_default();
        *child = Layout::new().with_position(cpos).with_size(csize);
    }
    let children: [FlexChild<RecView>; 1] = [FlexChild::new(RecView).face(Face::new(None, None, FaceAttrs::BOLD))];
    let r = flex_render(any_axis(), children, &ctx, SurfaceMutView::new(shape, &mut e1[..]), layout.view());
    assert!(r.is_ok());
    unsafe {
        if csize.height == 0 || csize.width == 0 { assert!(R_CALLS == 0); } else {
            assert!(R_CALLS == 1);
            assert!(R_SHAPE[0] == expect.start && R_SHAPE[1] == expect.end && R_SHAPE[2] == expect.width && R_SHAPE[3] == expect.height);
            assert!(R_POS.0 == cpos.row && R_POS.1 == cpos.col && R_SIZE.0 == csize.height && R_SIZE.1 == csize.width);
        }
        kani::cover!(R_CALLS == 1 && cpos.col > usize::MAX / 2 && csize.width > usize::MAX / 2);
    }
    std::mem::forget(r);
    std::mem::forget(layout);
    std::mem::forget(store);
}

// (a fill-face variant over real cells - the face applied to exactly the child's strip - was built and withdrawn: overwriting a
//  Cell pulls in the drop glue of CellKind::Glyph -> rasterize::Scene, a recursive type CBMC unwinds without end; 300 s timeout)
