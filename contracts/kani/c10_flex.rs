//@ target: src/view/flex.rs

use crate::view::{BoxConstraint, ViewLayoutStore, ViewMutLayout, Layout};

fn any_axis() -> Axis { if kani::any() { Axis::Horizontal } else { Axis::Vertical } }
fn any_justify() -> Justify {
    let k: u8 = kani::any();
    kani::assume(k < 6);
    match k { 0 => Justify::Start, 1 => Justify::Center, 2 => Justify::End, 3 => Justify::SpaceBetween, 4 => Justify::SpaceAround, _ => Justify::SpaceEvenly }
}
fn any_ct() -> (Size, Size, BoxConstraint) {
    let min = Size { height: kani::any(), width: kani::any() };
    let max = Size { height: kani::any(), width: kani::any() };
    kani::assume(min.height <= max.height && min.width <= max.width);
    (min, max, BoxConstraint::new(min, max))
}

//# kind=bounded tier=quick props=C10 bound="flex with zero children; every direction, justification and constraint with min <= max" fns=flex_layout | laying out an empty flex terminates without panicking (no division by the number of children) and reports a size within the constraint
#[kani::proof]
#[kani::unwind(4)]
fn c10_flex_zero_children() {
    let ctx = ViewContext::dummy();
    let (min, max, ct) = any_ct();
    let mut store = ViewLayoutStore::new();
    let mut layout = ViewMutLayout::new(&mut store, Layout::default());
    let children: [FlexChild<()>; 0] = [];
    let r = flex_layout(any_axis(), any_justify(), children, &ctx, ct, layout.view_mut());
    assert!(r.is_ok());
    let s = layout.size();
    assert!(s.height >= min.height && s.height <= max.height && s.width >= min.width && s.width <= max.width);
    kani::cover!(max.width > 0);
    std::mem::forget(r);
    std::mem::forget(layout);
    std::mem::forget(store);
}
