"""C08: every ViewBounds impl against one Python-slice oracle over i128.

Generated per impl (61 impls + range_bounds forms); each harness is loop-free
over the full domain of the selector type and every axis length
n <= isize::MAX, hence a complete proof (not bounded)."""

INTS = ["u8", "i8", "u16", "i16", "u32", "i32", "u64", "i64", "usize", "isize"]

HEAD = r'''
//@ target: src/surface.rs

// Oracle, written from the property statement (NumPy/Python slicing), over
// mathematical integers (i128 is wide enough for every 64-bit operand).
fn py_norm(x: i128, n: i128) -> i128 {
    if x < 0 { if x + n < 0 { 0 } else { x + n } } else { if x > n { n } else { x } }
}
fn py_index(i: i128, n: i128) -> Option<(usize, usize)> {
    let idx = if i < 0 { i + n } else { i };
    if 0 <= idx && idx < n { Some((idx as usize, (idx + 1) as usize)) } else { None }
}
#[derive(Clone, Copy)]
enum End { Open, Excl(i128), Incl(i128) }
fn py_slice(start: Option<i128>, end: End, n: i128) -> Option<(usize, usize)> {
    let s = match start { None => 0, Some(x) => py_norm(x, n) };
    let e = match end {
        End::Open => n,
        End::Excl(x) => py_norm(x, n),
        End::Incl(x) => {
            let idx = if x < 0 { x + n } else { x };
            let e = idx + 1;
            if e < 0 { 0 } else if e > n { n } else { e }
        }
    };
    if s < e { Some((s as usize, e as usize)) } else { None }
}
fn any_len() -> usize {
    let n: usize = kani::any();
    // type invariant of every Vec/slice backed surface axis
    kani::assume(n <= isize::MAX as usize);
    n
}
fn well_formed(r: Option<(usize, usize)>, n: usize) -> bool {
    match r { None => true, Some((s, e)) => s < e && e <= n }
}
'''

def harness(name, fns, desc, body):
    return '''
//# kind=complete tier=quick props=C08,C07 fns="%s" | %s
#[kani::proof]
#[kani::unwind(2)]
fn %s() {
    let n = any_len();
%s
    assert!(well_formed(got, n));
    assert_eq!(got, want);
    kani::cover!(got.is_some());
    kani::cover!(got.is_none());
}
''' % (fns, desc, name, body)

parts = [HEAD]
parts.append(harness("c08_full", "<RangeFull as ViewBounds>::view_bounds,range_bounds",
    "(..).view_bounds(n) == py_slice(None, Open, n)",
    "    let got = (..).view_bounds(n);\n    let want = py_slice(None, End::Open, n as i128);"))
for t in INTS:
    parts.append(harness("c08_index_%s" % t, "<%s as ViewBounds>::view_bounds" % t,
        "i.view_bounds(n) == py_index(i, n) for every i: %s" % t,
        "    let i: %s = kani::any();\n    let got = i.view_bounds(n);\n    let want = py_index(i as i128, n as i128);" % t))
    parts.append(harness("c08_range_%s" % t, "<Range<%s> as ViewBounds>::view_bounds,range_bounds" % t,
        "(a..b).view_bounds(n) == py_slice(a, Excl(b), n) for every a, b: %s" % t,
        "    let a: %s = kani::any();\n    let b: %s = kani::any();\n    let got = (a..b).view_bounds(n);\n    let want = py_slice(Some(a as i128), End::Excl(b as i128), n as i128);" % (t, t)))
    parts.append(harness("c08_from_%s" % t, "<RangeFrom<%s> as ViewBounds>::view_bounds,range_bounds" % t,
        "(a..).view_bounds(n) == py_slice(a, Open, n) for every a: %s" % t,
        "    let a: %s = kani::any();\n    let got = (a..).view_bounds(n);\n    let want = py_slice(Some(a as i128), End::Open, n as i128);" % t))
    parts.append(harness("c08_to_%s" % t, "<RangeTo<%s> as ViewBounds>::view_bounds,range_bounds" % t,
        "(..b).view_bounds(n) == py_slice(None, Excl(b), n) for every b: %s" % t,
        "    let b: %s = kani::any();\n    let got = (..b).view_bounds(n);\n    let want = py_slice(None, End::Excl(b as i128), n as i128);" % t))
    parts.append(harness("c08_incl_%s" % t, "<RangeInclusive<%s> as ViewBounds>::view_bounds,range_bounds" % t,
        "(a..=b).view_bounds(n) == py_slice(a, Incl(b), n) for every a, b: %s" % t,
        "    let a: %s = kani::any();\n    let b: %s = kani::any();\n    let got = (a..=b).view_bounds(n);\n    let want = py_slice(Some(a as i128), End::Incl(b as i128), n as i128);" % (t, t)))
    parts.append(harness("c08_toincl_%s" % t, "<RangeToInclusive<%s> as ViewBounds>::view_bounds,range_bounds" % t,
        "(..=b).view_bounds(n) == py_slice(None, Incl(b), n) for every b: %s" % t,
        "    let b: %s = kani::any();\n    let got = (..=b).view_bounds(n);\n    let want = py_slice(None, End::Incl(b as i128), n as i128);" % t))

TEXT = "\n".join(parts)
