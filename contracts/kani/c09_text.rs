//@ target: src/view/text.rs

use crate::view::{BoxConstraint, ViewLayoutStore, ViewMutLayout, Layout, Tree, TreeMut};
use crate::render::CellKind;
use crate::{SurfaceOwned, SurfaceMut, Surface};

// Text::layout and Text::render are checked modularly: Cell::layout and TerminalWriter::put_cell (both under Verus contract) are
// replaced by recorders, so the harness sees with WHICH arguments and in WHICH order the two loops call them.
static mut L_CALLS: usize = 0;
static mut L_WIDTH: [usize; 4] = [0; 4];
static mut L_WRAPS: [bool; 4] = [false; 4];
static mut L_CHAR: [u32; 4] = [0; 4];
fn cell_char(c: &Cell) -> u32 { match c.kind() { CellKind::Char(ch) => *ch as u32, _ => 0 } }
fn stub_layout(c: &Cell, _ctx: &ViewContext, max_width: usize, wraps: bool, size: &mut Size, cursor: &mut Position) -> Option<Position> {
    unsafe { if L_CALLS < 4 { L_WIDTH[L_CALLS] = max_width; L_WRAPS[L_CALLS] = wraps; L_CHAR[L_CALLS] = cell_char(c); } L_CALLS += 1; }
    // some layout step: one column per cell
    let pos = *cursor;
    cursor.col += 1;
    size.width = cursor.col; size.height = 1;
    Some(pos)
}
static mut P_CALLS: usize = 0;
static mut P_WRAPS: [bool; 4] = [false; 4];
static mut P_CHAR: [u32; 4] = [0; 4];
fn stub_put_cell<'a>(w: &mut crate::render::TerminalWriter<'a>, cell: Cell) -> bool where 'a: 'a {
    unsafe { if P_CALLS < 4 { P_WRAPS[P_CALLS] = w.wraps(); P_CHAR[P_CALLS] = cell_char(&cell); } P_CALLS += 1; }
    std::mem::forget(cell);
    true
}
fn stub_utf8_new() -> crate::decoder::Utf8Decoder { unsafe { std::mem::zeroed() } }

fn two_cell_text(wraps: bool) -> Text {
    let mut t = Text::new();
    t.put_cell(Cell::new_char(Face::default(), 'h'));
    t.put_cell(Cell::new_char(Face::default(), 'i'));
    t.set_wraps(wraps);
    t
}

//# kind=bounded tier=quick props=C09 fns="<Text as View>::layout" bound="text of two character cells; any constraint with min <= max, both wrap modes; Cell::layout replaced by a recorder" | Text::layout measures by calling Cell::layout once per cell, in order, with the width of the constraint's maximum and the text's own wrap flag, and reports the measured size clamped to the constraint
#[kani::proof]
#[kani::unwind(6)]
#[kani::stub(Cell::layout, stub_layout)]
fn c09_text_layout_calls() {
    let wraps: bool = kani::any();
    let t = two_cell_text(wraps);
    let ctx = ViewContext::dummy();
    let min = Size { height: kani::any(), width: kani::any() };
    let max = Size { height: kani::any(), width: kani::any() };
    kani::assume(min.height <= max.height && min.width <= max.width);
    let ct = BoxConstraint::new(min, max);
    let mut store = ViewLayoutStore::new();
    let mut layout = ViewMutLayout::new(&mut store, Layout::default());
    let r = t.layout(&ctx, ct, layout.view_mut());
    assert!(r.is_ok());
    unsafe {
        assert!(L_CALLS == 2);
        assert!(L_WIDTH[0] == max.width && L_WIDTH[1] == max.width && L_WRAPS[0] == wraps && L_WRAPS[1] == wraps);
        assert!(L_CHAR[0] == 'h' as u32 && L_CHAR[1] == 'i' as u32);
    }
    let s = layout.size();
    assert!(s == ct.clamp(Size { height: 1, width: 2 }));
    std::mem::forget(r); std::mem::forget(layout); std::mem::forget(store); std::mem::forget(t);
}

//# kind=bounded tier=quick props=C09 fns="<Text as View>::render" bound="text of two character cells, 2x3 surface, both wrap modes; TerminalWriter::put_cell replaced by a recorder, Utf8Decoder::new by a placeholder" | Text::render writes every cell once, in order, through a writer that carries the text's own wrap flag (the flag Text::layout measured with)
#[kani::proof]
#[kani::unwind(8)]
#[kani::stub(crate::render::TerminalWriter::put_cell, stub_put_cell)]
#[kani::stub(crate::decoder::Utf8Decoder::new, stub_utf8_new)]
fn c09_text_render_calls() {
    let wraps: bool = kani::any();
    let t = two_cell_text(wraps);
    let ctx = ViewContext::dummy();
    let mut surf: SurfaceOwned<Cell> = SurfaceOwned::new_with(Size::new(2, 3), |_| Cell::new_char(Face::default(), ' '));
    let mut store = ViewLayoutStore::new();
    let layout = ViewMutLayout::new(&mut store, Layout::new().with_size(Size::new(2, 3)));
    let r = t.render(&ctx, surf.as_mut(), layout.view());
    assert!(r.is_ok());
    unsafe {
        assert!(P_CALLS == 2 && P_CHAR[0] == 'h' as u32 && P_CHAR[1] == 'i' as u32);
        assert!(P_WRAPS[0] == wraps && P_WRAPS[1] == wraps);
    }
    std::mem::forget(r); std::mem::forget(layout); std::mem::forget(store); std::mem::forget(t); std::mem::forget(surf);
}
