//@ target: src/encoder.rs

use crate::{Face, FaceModify, Position, RGBA};

// Sink that records literal bytes and discards formatted pieces (core::fmt is outside CBMC's reach, see DESIGN):
// the *arguments* of every write!() are still evaluated, so arithmetic on parameters is checked.
struct Sink { bytes: [u8; 48], len: usize, fmt_calls: usize }
impl Sink { fn new() -> Self { Sink { bytes: [0; 48], len: 0, fmt_calls: 0 } } }
impl Write for Sink {
    fn write(&mut self, buf: &[u8]) -> io::Result<usize> {
        let mut i = 0;
        while i < buf.len() {
            if self.len < 48 { self.bytes[self.len] = buf[i]; self.len += 1; }
            i += 1;
        }
        Ok(buf.len())
    }
    fn flush(&mut self) -> io::Result<()> { Ok(()) }
    fn write_fmt(&mut self, _args: std::fmt::Arguments<'_>) -> io::Result<()> { self.fmt_calls += 1; Ok(()) }
}
fn any_mode() -> DecMode {
    let k: u8 = kani::any();
    kani::assume(k < 9);
    match k {
        0 => DecMode::VisibleCursor, 1 => DecMode::AutoWrap, 2 => DecMode::SixelScrolling, 3 => DecMode::MouseReport,
        4 => DecMode::MouseMotions, 5 => DecMode::MouseSGR, 6 => DecMode::AltScreen, 7 => DecMode::SynchronizedOutput,
        _ => DecMode::BracketedPaste,
    }
}
fn any_caps() -> TerminalCaps {
    let d: u8 = kani::any();
    kani::assume(d < 3);
    TerminalCaps {
        depth: match d { 0 => ColorDepth::TrueColor, 1 => ColorDepth::EightBit, _ => ColorDepth::Gray },
        glyphs: kani::any(),
        kitty_keyboard: kani::any(),
    }
}

//# kind=complete tier=quick props=C05 fns=TTYEncoder::encode,TTYEncoder::kitty_level | encode never panics / overflows for any numeric command with any parameter values (CursorTo, CursorMove, Scroll, ScrollRegion, EraseChars, DecModeSet/Get, KeyboardLevel, Color query/palette index) under every capability setting
#[kani::proof]
#[kani::unwind(4)]
fn c05_encode_numeric_nopanic() {
    let mut enc = TTYEncoder::new(any_caps());
    let mut out = Sink::new();
    let k: u8 = kani::any();
    kani::assume(k < 9);
    let cmd = match k {
        0 => TerminalCommand::CursorTo(Position { row: kani::any(), col: kani::any() }),
        1 => TerminalCommand::CursorMove { row: kani::any(), col: kani::any() },
        2 => TerminalCommand::Scroll(kani::any()),
        3 => TerminalCommand::ScrollRegion { start: kani::any(), end: kani::any() },
        4 => TerminalCommand::EraseChars(kani::any()),
        5 => TerminalCommand::DecModeSet { enable: kani::any(), mode: any_mode() },
        6 => TerminalCommand::DecModeGet(any_mode()),
        7 => TerminalCommand::KeyboardLevel(kani::any()),
        _ => TerminalCommand::Color { name: TerminalColor::Palette(kani::any()), color: None },
    };
    let r = enc.encode(&mut out, cmd);
    assert!(r.is_ok());
    kani::cover!(k == 1);
}

fn literal_cmd(k: u8) -> (TerminalCommand, &'static [u8]) {
    // oracle: ECMA-48 / xterm ctlseqs / VT510 manual
    match k {
        0 => (TerminalCommand::CursorGet, b"\x1b[6n"),        // DSR 6: report cursor position
        1 => (TerminalCommand::CursorSave, b"\x1b7"),         // DECSC
        2 => (TerminalCommand::CursorRestore, b"\x1b8"),      // DECRC
        3 => (TerminalCommand::EraseLineRight, b"\x1b[K"),    // EL 0
        4 => (TerminalCommand::EraseLineLeft, b"\x1b[1K"),    // EL 1
        5 => (TerminalCommand::EraseLine, b"\x1b[2K"),        // EL 2
        6 => (TerminalCommand::EraseScreen, b"\x1b[2J"),      // ED 2
        7 => (TerminalCommand::FaceGet, b"\x1bP$qm\x1b\\"),   // DECRQSS for SGR
        8 => (TerminalCommand::Reset, b"\x1bc"),              // RIS
        _ => (TerminalCommand::Raw(Vec::new()), b""),
    }
}

//# kind=complete tier=quick props=C05 fns=TTYEncoder::encode | parameterless commands emit exactly their ECMA-48/xterm byte sequence (CursorGet, CursorSave/Restore, EL 0/1/2, ED 2, DECRQSS m, RIS) under every capability setting
#[kani::proof]
#[kani::unwind(12)]
fn c05_literal_sequences() {
    let mut enc = TTYEncoder::new(any_caps());
    let mut out = Sink::new();
    let k: u8 = kani::any();
    kani::assume(k < 9);
    let (cmd, want) = literal_cmd(k);
    assert!(enc.encode(&mut out, cmd).is_ok());
    assert!(out.fmt_calls == 0);
    assert!(out.len == want.len());
    let mut i = 0;
    while i < want.len() { assert!(out.bytes[i] == want[i]); i += 1; }
    kani::cover!(k == 7);
}

// minimal SGR splitter for attribute-only sequences: ESC [ p1 ; p2 ; ... m  with p in {digits, "4:d"}
// returns a bit set of codes seen: bit n for plain code n (n < 32), underline style in `under` (0 = none seen)
struct Seen { codes: u32, under: u8, first: u8, well_formed: bool, count: u8 }
fn parse_sgr(b: &[u8], len: usize) -> Seen {
    let mut s = Seen { codes: 0, under: 255, first: 255, well_formed: true, count: 0 };
    if len < 3 || b[0] != 0x1b || b[1] != b'[' || b[len - 1] != b'm' { s.well_formed = false; return s; }
    let mut i = 2;
    let mut cur: u32 = 0;
    let mut have = false;
    let mut sub: u32 = 0;
    let mut in_sub = false;
    while i < len {
        let c = b[i];
        if c >= b'0' && c <= b'9' {
            if in_sub { sub = sub * 10 + (c - b'0') as u32; } else { cur = cur * 10 + (c - b'0') as u32; have = true; }
        } else if c == b':' {
            in_sub = true;
        } else if c == b';' || c == b'm' {
            if !have || cur >= 32 { s.well_formed = false; }
            else {
                if s.count == 0 { s.first = cur as u8; }
                s.count += 1;
                if cur == 4 { s.under = if in_sub { sub as u8 } else { 1 }; } else if in_sub { s.well_formed = false; }
                else { s.codes |= 1 << cur; }
            }
            cur = 0; have = false; sub = 0; in_sub = false;
        } else { s.well_formed = false; }
        i += 1;
    }
    s
}
fn any_attrs() -> FaceAttrs {
    let bits: u16 = kani::any();
    kani::assume(bits & 7 <= 5 && (bits >> 3) <= 31);
    let mut a = FaceAttrs::EMPTY;
    // build through the public API only
    if bits & 7 == 1 { a = a | FaceAttrs::UNDERLINE; }
    if bits & 7 == 2 { a = a | FaceAttrs::UNDERLINE_DOUBLE; }
    if bits & 7 == 3 { a = a | FaceAttrs::UNDERLINE_CURLY; }
    if bits & 7 == 4 { a = a | FaceAttrs::UNDERLINE_DOTTED; }
    if bits & 7 == 5 { a = a | FaceAttrs::UNDERLINE_DASHED; }
    if bits & 8 != 0 { a = a | FaceAttrs::BOLD; }
    if bits & 16 != 0 { a = a | FaceAttrs::ITALIC; }
    if bits & 32 != 0 { a = a | FaceAttrs::BLINK; }
    if bits & 64 != 0 { a = a | FaceAttrs::REVERSE; }
    if bits & 128 != 0 { a = a | FaceAttrs::STRIKE; }
    a
}
fn style_code(u: UnderlineStyle) -> u8 {
    match u { UnderlineStyle::None => 0, UnderlineStyle::Straight => 1, UnderlineStyle::Double => 2, UnderlineStyle::Curly => 3, UnderlineStyle::Dotted => 4, UnderlineStyle::Dashed => 5 }
}

//# kind=complete tier=quick props=C05 fns=TTYEncoder::encode,Chunks::push,Chunks::drain | Face without colours encodes to one well-formed SGR sequence that starts with 0 (reset) and selects exactly the requested attributes: 1 bold, 3 italic, 5 blink, 7 reverse, 9 strike, 4 / 4:n underline style - nothing else (all 6 x 32 attribute sets, all capability settings)
#[kani::proof]
#[kani::unwind(26)]
fn c05_face_attrs_sgr() {
    let mut enc = TTYEncoder::new(any_caps());
    let mut out = Sink::new();
    let attrs = any_attrs();
    let face = Face { fg: None, bg: None, attrs };
    assert!(enc.encode(&mut out, TerminalCommand::Face(face)).is_ok());
    assert!(out.fmt_calls == 0 && out.len < 48);
    let s = parse_sgr(&out.bytes, out.len);
    assert!(s.well_formed);
    assert!(s.first == 0);
    let mut want: u32 = 1; // code 0
    if attrs.contains(FaceAttrs::BOLD) { want |= 1 << 1; }
    if attrs.contains(FaceAttrs::ITALIC) { want |= 1 << 3; }
    if attrs.contains(FaceAttrs::BLINK) { want |= 1 << 5; }
    if attrs.contains(FaceAttrs::REVERSE) { want |= 1 << 7; }
    if attrs.contains(FaceAttrs::STRIKE) { want |= 1 << 9; }
    assert!(s.codes == want);
    let u = style_code(attrs.underline());
    assert!(if u == 0 { s.under == 255 } else { s.under == u });
    kani::cover!(u == 5 && want == 0b1010101011);
}

fn any_opt_bool() -> Option<bool> { if kani::any() { Some(kani::any()) } else { None } }

//# kind=complete tier=quick props=C05,C06 fns=TTYEncoder::encode,Chunks::push,Chunks::drain | FaceModify without colours encodes to nothing (empty change) or one well-formed SGR sequence that selects exactly: 0 iff reset; 1/22 bold on/off, 3/23 italic, 5/25 blink, 9/29 strike; 4, 4:n or 24 for the underline style - each only if requested (standard ECMA-48 codes: 22, not 21, turns bold off)
#[kani::proof]
#[kani::unwind(26)]
fn c05_face_modify_attrs_sgr() {
    let mut enc = TTYEncoder::new(any_caps());
    let mut out = Sink::new();
    let us: u8 = kani::any();
    kani::assume(us <= 6);
    let underline = match us { 0 => None, 1 => Some(UnderlineStyle::None), 2 => Some(UnderlineStyle::Straight), 3 => Some(UnderlineStyle::Double),
        4 => Some(UnderlineStyle::Curly), 5 => Some(UnderlineStyle::Dotted), _ => Some(UnderlineStyle::Dashed) };
    let m = FaceModify { reset: kani::any(), fg: None, bg: None, underline, underline_color: None,
        bold: any_opt_bool(), italic: any_opt_bool(), blink: any_opt_bool(), strike: any_opt_bool() };
    assert!(enc.encode(&mut out, TerminalCommand::FaceModify(m)).is_ok());
    assert!(out.fmt_calls == 0 && out.len < 48);
    let empty = !m.reset && m.underline.is_none() && m.bold.is_none() && m.italic.is_none() && m.blink.is_none() && m.strike.is_none();
    if empty {
        assert!(out.len == 0);
    } else {
        let s = parse_sgr(&out.bytes, out.len);
        assert!(s.well_formed);
        let mut want: u32 = 0;
        if m.reset { want |= 1; assert!(s.first == 0); }
        let onoff = |v: Option<bool>, on: u32, off: u32| -> u32 { match v { Some(true) => 1 << on, Some(false) => 1 << off, None => 0 } };
        want |= onoff(m.bold, 1, 22) | onoff(m.italic, 3, 23) | onoff(m.blink, 5, 25) | onoff(m.strike, 9, 29);
        if m.underline == Some(UnderlineStyle::None) { want |= 1 << 24; }
        assert!(s.codes == want);
        match m.underline {
            None | Some(UnderlineStyle::None) => assert!(s.under == 255),
            Some(u) => assert!(s.under == style_code(u)),
        }
    }
    kani::cover!(m.reset && m.bold == Some(false) && us == 6);
}
