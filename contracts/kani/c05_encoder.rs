//@ target: src/encoder.rs

use crate::{Face, FaceModify, Position, RGBA};

// Sink that records literal bytes and discards formatted pieces (core::fmt is outside CBMC's reach, see DESIGN):
// the *arguments* of every write!() are still evaluated, so arithmetic on parameters is checked.
struct Sink { bytes: [u8; 48], len: usize, fmt_calls: usize }
impl Sink { fn new() -> Self { Sink { bytes: [0; 48], len: 0, fmt_calls: 0 } } }
impl Write for Sink {
    fn write(&mut self, buf: &[u8]) -> io::Result<usize> {
        let mut i = 0;
        while i < buf.len() {
            if self.len < 48 { self.bytes[self.len] = buf[i]; self.len += 1; }
            i += 1;
        }
        Ok(buf.len())
    }
    fn flush(&mut self) -> io::Result<()> { Ok(()) }
    fn write_fmt(&mut self, _args: std::fmt::Arguments<'_>) -> io::Result<()> { self.fmt_calls += 1; Ok(()) }
}
fn any_mode() -> DecMode {
    let k: u8 = kani::any();
    kani::assume(k < 9);
    match k {
        0 => DecMode::VisibleCursor, 1 => DecMode::AutoWrap, 2 => DecMode::SixelScrolling, 3 => DecMode::MouseReport,
        4 => DecMode::MouseMotions, 5 => DecMode::MouseSGR, 6 => DecMode::AltScreen, 7 => DecMode::SynchronizedOutput,
        _ => DecMode::BracketedPaste,
    }
}
fn any_caps() -> TerminalCaps {
    let d: u8 = kani::any();
    kani::assume(d < 3);
    TerminalCaps {
        depth: match d { 0 => ColorDepth::TrueColor, 1 => ColorDepth::EightBit, _ => ColorDepth::Gray },
        glyphs: kani::any(),
        kitty_keyboard: kani::any(),
    }
}


//# kind=complete tier=quick props=C05 fns=TTYEncoder::encode,TTYEncoder::kitty_level | encode never panics / overflows: CursorTo with any row/col, under every capability setting
#[kani::proof]
#[kani::unwind(4)]
fn c05_nopanic_cursor_to() {
    let mut enc = TTYEncoder::new(any_caps());
    let mut out = Sink::new();
    let r = enc.encode(&mut out, TerminalCommand::CursorTo(Position { row: kani::any(), col: kani::any() }));
    assert!(r.is_ok());
    std::mem::forget(r);
    std::mem::forget(enc);
    kani::cover!(true);
}

//# kind=complete tier=quick props=C05 fns=TTYEncoder::encode,TTYEncoder::kitty_level | encode never panics / overflows: CursorMove with any signed row/col (incl. i32::MIN), under every capability setting
#[kani::proof]
#[kani::unwind(4)]
fn c05_nopanic_cursor_move() {
    let mut enc = TTYEncoder::new(any_caps());
    let mut out = Sink::new();
    let r = enc.encode(&mut out, TerminalCommand::CursorMove { row: kani::any(), col: kani::any() });
    assert!(r.is_ok());
    std::mem::forget(r);
    std::mem::forget(enc);
    kani::cover!(true);
}

//# kind=complete tier=quick props=C05 fns=TTYEncoder::encode,TTYEncoder::kitty_level | encode never panics / overflows: Scroll with any signed count (incl. i32::MIN), under every capability setting
#[kani::proof]
#[kani::unwind(4)]
fn c05_nopanic_scroll() {
    let mut enc = TTYEncoder::new(any_caps());
    let mut out = Sink::new();
    let r = enc.encode(&mut out, TerminalCommand::Scroll(kani::any()));
    assert!(r.is_ok());
    std::mem::forget(r);
    std::mem::forget(enc);
    kani::cover!(true);
}

//# kind=complete tier=quick props=C05 fns=TTYEncoder::encode,TTYEncoder::kitty_level | encode never panics / overflows: ScrollRegion with any start/end, under every capability setting
#[kani::proof]
#[kani::unwind(4)]
fn c05_nopanic_scroll_region() {
    let mut enc = TTYEncoder::new(any_caps());
    let mut out = Sink::new();
    let r = enc.encode(&mut out, TerminalCommand::ScrollRegion { start: kani::any(), end: kani::any() });
    assert!(r.is_ok());
    std::mem::forget(r);
    std::mem::forget(enc);
    kani::cover!(true);
}

//# kind=complete tier=quick props=C05 fns=TTYEncoder::encode,TTYEncoder::kitty_level | encode never panics / overflows: EraseChars with any count, under every capability setting
#[kani::proof]
#[kani::unwind(4)]
fn c05_nopanic_erase_chars() {
    let mut enc = TTYEncoder::new(any_caps());
    let mut out = Sink::new();
    let r = enc.encode(&mut out, TerminalCommand::EraseChars(kani::any()));
    assert!(r.is_ok());
    std::mem::forget(r);
    std::mem::forget(enc);
    kani::cover!(true);
}

//# kind=complete tier=quick props=C05 fns=TTYEncoder::encode,TTYEncoder::kitty_level | encode never panics / overflows: DecModeSet for every mode, both directions (incl. the alt-screen keyboard-level bracketing), under every capability setting
#[kani::proof]
#[kani::unwind(4)]
fn c05_nopanic_dec_mode_set() {
    let mut enc = TTYEncoder::new(any_caps());
    let mut out = Sink::new();
    let r = enc.encode(&mut out, TerminalCommand::DecModeSet { enable: kani::any(), mode: any_mode() });
    assert!(r.is_ok());
    std::mem::forget(r);
    std::mem::forget(enc);
    kani::cover!(true);
}

//# kind=complete tier=quick props=C05 fns=TTYEncoder::encode,TTYEncoder::kitty_level | encode never panics / overflows: DecModeGet for every mode, under every capability setting
#[kani::proof]
#[kani::unwind(4)]
fn c05_nopanic_dec_mode_get() {
    let mut enc = TTYEncoder::new(any_caps());
    let mut out = Sink::new();
    let r = enc.encode(&mut out, TerminalCommand::DecModeGet(any_mode()));
    assert!(r.is_ok());
    std::mem::forget(r);
    std::mem::forget(enc);
    kani::cover!(true);
}

//# kind=complete tier=quick props=C05 fns=TTYEncoder::encode,TTYEncoder::kitty_level | encode never panics / overflows: KeyboardLevel with any level, under every capability setting
#[kani::proof]
#[kani::unwind(4)]
fn c05_nopanic_keyboard_level() {
    let mut enc = TTYEncoder::new(any_caps());
    let mut out = Sink::new();
    let r = enc.encode(&mut out, TerminalCommand::KeyboardLevel(kani::any()));
    assert!(r.is_ok());
    std::mem::forget(r);
    std::mem::forget(enc);
    kani::cover!(true);
}

//# kind=complete tier=quick props=C05 fns=TTYEncoder::encode,TTYEncoder::kitty_level | encode never panics / overflows: palette colour query with any index, under every capability setting
#[kani::proof]
#[kani::unwind(4)]
fn c05_nopanic_color_query() {
    let mut enc = TTYEncoder::new(any_caps());
    let mut out = Sink::new();
    let r = enc.encode(&mut out, TerminalCommand::Color { name: TerminalColor::Palette(kani::any()), color: None });
    assert!(r.is_ok());
    std::mem::forget(r);
    std::mem::forget(enc);
    kani::cover!(true);
}

//# kind=complete tier=quick props=C05 fns=TTYEncoder::encode | CursorGet is emitted as exactly its ECMA-48/xterm byte sequence (DSR 6 (report cursor position)) under every capability setting
#[kani::proof]
#[kani::unwind(12)]
fn c05_literal_cursor_get() {
    let mut enc = TTYEncoder::new(any_caps());
    let mut out = Sink::new();
    let want: &[u8] = b"\x1b[6n";
    let res = enc.encode(&mut out, TerminalCommand::CursorGet);
    assert!(res.is_ok());
    std::mem::forget(res);
    std::mem::forget(enc); // keep CBMC out of the drop glue (Vec/Error)
    assert!(out.fmt_calls == 0 && out.len == want.len());
    let mut i = 0;
    while i < want.len() { assert!(out.bytes[i] == want[i]); i += 1; }
    kani::cover!(true);
}

//# kind=complete tier=quick props=C05 fns=TTYEncoder::encode | CursorSave is emitted as exactly its ECMA-48/xterm byte sequence (DECSC) under every capability setting
#[kani::proof]
#[kani::unwind(12)]
fn c05_literal_cursor_save() {
    let mut enc = TTYEncoder::new(any_caps());
    let mut out = Sink::new();
    let want: &[u8] = b"\x1b7";
    let res = enc.encode(&mut out, TerminalCommand::CursorSave);
    assert!(res.is_ok());
    std::mem::forget(res);
    std::mem::forget(enc); // keep CBMC out of the drop glue (Vec/Error)
    assert!(out.fmt_calls == 0 && out.len == want.len());
    let mut i = 0;
    while i < want.len() { assert!(out.bytes[i] == want[i]); i += 1; }
    kani::cover!(true);
}

//# kind=complete tier=quick props=C05 fns=TTYEncoder::encode | CursorRestore is emitted as exactly its ECMA-48/xterm byte sequence (DECRC) under every capability setting
#[kani::proof]
#[kani::unwind(12)]
fn c05_literal_cursor_restore() {
    let mut enc = TTYEncoder::new(any_caps());
    let mut out = Sink::new();
    let want: &[u8] = b"\x1b8";
    let res = enc.encode(&mut out, TerminalCommand::CursorRestore);
    assert!(res.is_ok());
    std::mem::forget(res);
    std::mem::forget(enc); // keep CBMC out of the drop glue (Vec/Error)
    assert!(out.fmt_calls == 0 && out.len == want.len());
    let mut i = 0;
    while i < want.len() { assert!(out.bytes[i] == want[i]); i += 1; }
    kani::cover!(true);
}

//# kind=complete tier=quick props=C05 fns=TTYEncoder::encode | EraseLineRight is emitted as exactly its ECMA-48/xterm byte sequence (EL 0) under every capability setting
#[kani::proof]
#[kani::unwind(12)]
fn c05_literal_erase_line_right() {
    let mut enc = TTYEncoder::new(any_caps());
    let mut out = Sink::new();
    let want: &[u8] = b"\x1b[K";
    let res = enc.encode(&mut out, TerminalCommand::EraseLineRight);
    assert!(res.is_ok());
    std::mem::forget(res);
    std::mem::forget(enc); // keep CBMC out of the drop glue (Vec/Error)
    assert!(out.fmt_calls == 0 && out.len == want.len());
    let mut i = 0;
    while i < want.len() { assert!(out.bytes[i] == want[i]); i += 1; }
    kani::cover!(true);
}

//# kind=complete tier=quick props=C05 fns=TTYEncoder::encode | EraseLineLeft is emitted as exactly its ECMA-48/xterm byte sequence (EL 1) under every capability setting
#[kani::proof]
#[kani::unwind(12)]
fn c05_literal_erase_line_left() {
    let mut enc = TTYEncoder::new(any_caps());
    let mut out = Sink::new();
    let want: &[u8] = b"\x1b[1K";
    let res = enc.encode(&mut out, TerminalCommand::EraseLineLeft);
    assert!(res.is_ok());
    std::mem::forget(res);
    std::mem::forget(enc); // keep CBMC out of the drop glue (Vec/Error)
    assert!(out.fmt_calls == 0 && out.len == want.len());
    let mut i = 0;
    while i < want.len() { assert!(out.bytes[i] == want[i]); i += 1; }
    kani::cover!(true);
}

//# kind=complete tier=quick props=C05 fns=TTYEncoder::encode | EraseLine is emitted as exactly its ECMA-48/xterm byte sequence (EL 2) under every capability setting
#[kani::proof]
#[kani::unwind(12)]
fn c05_literal_erase_line() {
    let mut enc = TTYEncoder::new(any_caps());
    let mut out = Sink::new();
    let want: &[u8] = b"\x1b[2K";
    let res = enc.encode(&mut out, TerminalCommand::EraseLine);
    assert!(res.is_ok());
    std::mem::forget(res);
    std::mem::forget(enc); // keep CBMC out of the drop glue (Vec/Error)
    assert!(out.fmt_calls == 0 && out.len == want.len());
    let mut i = 0;
    while i < want.len() { assert!(out.bytes[i] == want[i]); i += 1; }
    kani::cover!(true);
}

//# kind=complete tier=quick props=C05 fns=TTYEncoder::encode | EraseScreen is emitted as exactly its ECMA-48/xterm byte sequence (ED 2) under every capability setting
#[kani::proof]
#[kani::unwind(12)]
fn c05_literal_erase_screen() {
    let mut enc = TTYEncoder::new(any_caps());
    let mut out = Sink::new();
    let want: &[u8] = b"\x1b[2J";
    let res = enc.encode(&mut out, TerminalCommand::EraseScreen);
    assert!(res.is_ok());
    std::mem::forget(res);
    std::mem::forget(enc); // keep CBMC out of the drop glue (Vec/Error)
    assert!(out.fmt_calls == 0 && out.len == want.len());
    let mut i = 0;
    while i < want.len() { assert!(out.bytes[i] == want[i]); i += 1; }
    kani::cover!(true);
}

//# kind=complete tier=quick props=C05 fns=TTYEncoder::encode | FaceGet is emitted as exactly its ECMA-48/xterm byte sequence (DECRQSS for SGR) under every capability setting
#[kani::proof]
#[kani::unwind(12)]
fn c05_literal_face_get() {
    let mut enc = TTYEncoder::new(any_caps());
    let mut out = Sink::new();
    let want: &[u8] = b"\x1bP$qm\x1b\\";
    let res = enc.encode(&mut out, TerminalCommand::FaceGet);
    assert!(res.is_ok());
    std::mem::forget(res);
    std::mem::forget(enc); // keep CBMC out of the drop glue (Vec/Error)
    assert!(out.fmt_calls == 0 && out.len == want.len());
    let mut i = 0;
    while i < want.len() { assert!(out.bytes[i] == want[i]); i += 1; }
    kani::cover!(true);
}

//# kind=complete tier=quick props=C05 fns=TTYEncoder::encode | Reset is emitted as exactly its ECMA-48/xterm byte sequence (RIS) under every capability setting
#[kani::proof]
#[kani::unwind(12)]
fn c05_literal_reset() {
    let mut enc = TTYEncoder::new(any_caps());
    let mut out = Sink::new();
    let want: &[u8] = b"\x1bc";
    let res = enc.encode(&mut out, TerminalCommand::Reset);
    assert!(res.is_ok());
    std::mem::forget(res);
    std::mem::forget(enc); // keep CBMC out of the drop glue (Vec/Error)
    assert!(out.fmt_calls == 0 && out.len == want.len());
    let mut i = 0;
    while i < want.len() { assert!(out.bytes[i] == want[i]); i += 1; }
    kani::cover!(true);
}

//# kind=complete tier=quick props=C05 fns=TTYEncoder::encode,color_sgr_encode | a FaceModify that selects nothing representable emits no bytes at all: on a grey-only terminal an underline colour (which that depth cannot express) must not turn into an empty `CSI m`, which a terminal reads as a full reset
#[kani::proof]
#[kani::unwind(6)]
fn c05_face_modify_gray_underline_color_only() {
    let caps = TerminalCaps { depth: ColorDepth::Gray, glyphs: kani::any(), kitty_keyboard: kani::any() };
    let mut enc = TTYEncoder::new(caps);
    let mut out = Sink::new();
    let m = FaceModify { underline_color: Some(RGBA::new(kani::any(), kani::any(), kani::any(), 255)), ..FaceModify::default() };
    let res = enc.encode(&mut out, TerminalCommand::FaceModify(m));
    assert!(res.is_ok());
    std::mem::forget(res);
    std::mem::forget(enc); // keep CBMC out of the drop glue (Vec/Error)
    assert!(out.len == 0 && out.fmt_calls == 0);
    kani::cover!(true);
}

// minimal SGR splitter for attribute-only sequences: ESC [ p1 ; p2 ; ... m  with p in {digits, "4:d"}
// returns a bit set of codes seen: bit n for plain code n (n < 32), underline style in `under` (0 = none seen)
struct Seen { codes: u32, under: u8, first: u8, well_formed: bool, count: u8 }
fn parse_sgr(b: &[u8], len: usize) -> Seen {
    let mut s = Seen { codes: 0, under: 255, first: 255, well_formed: true, count: 0 };
    if len < 3 || b[0] != 0x1b || b[1] != b'[' || b[len - 1] != b'm' { s.well_formed = false; return s; }
    let mut i = 2;
    let mut cur: u32 = 0;
    let mut have = false;
    let mut sub: u32 = 0;
    let mut in_sub = false;
    while i < len {
        let c = b[i];
        if c >= b'0' && c <= b'9' {
            if in_sub { sub = sub * 10 + (c - b'0') as u32; } else { cur = cur * 10 + (c - b'0') as u32; have = true; }
        } else if c == b':' {
            in_sub = true;
        } else if c == b';' || c == b'm' {
            if !have || cur >= 32 { s.well_formed = false; }
            else {
                if s.count == 0 { s.first = cur as u8; }
                s.count += 1;
                if cur == 4 { s.under = if in_sub { sub as u8 } else { 1 }; } else if in_sub { s.well_formed = false; }
                else { s.codes |= 1 << cur; }
            }
            cur = 0; have = false; sub = 0; in_sub = false;
        } else { s.well_formed = false; }
        i += 1;
    }
    s
}
fn any_attrs() -> FaceAttrs {
    let bits: u16 = kani::any();
    kani::assume(bits & 7 <= 5 && (bits >> 3) <= 31);
    let mut a = FaceAttrs::EMPTY;
    // build through the public API only
    if bits & 7 == 1 { a = a | FaceAttrs::UNDERLINE; }
    if bits & 7 == 2 { a = a | FaceAttrs::UNDERLINE_DOUBLE; }
    if bits & 7 == 3 { a = a | FaceAttrs::UNDERLINE_CURLY; }
    if bits & 7 == 4 { a = a | FaceAttrs::UNDERLINE_DOTTED; }
    if bits & 7 == 5 { a = a | FaceAttrs::UNDERLINE_DASHED; }
    if bits & 8 != 0 { a = a | FaceAttrs::BOLD; }
    if bits & 16 != 0 { a = a | FaceAttrs::ITALIC; }
    if bits & 32 != 0 { a = a | FaceAttrs::BLINK; }
    if bits & 64 != 0 { a = a | FaceAttrs::REVERSE; }
    if bits & 128 != 0 { a = a | FaceAttrs::STRIKE; }
    a
}
fn style_code(u: UnderlineStyle) -> u8 {
    match u { UnderlineStyle::None => 0, UnderlineStyle::Straight => 1, UnderlineStyle::Double => 2, UnderlineStyle::Curly => 3, UnderlineStyle::Dotted => 4, UnderlineStyle::Dashed => 5 }
}

// (a harness over ALL 6 x 32 attribute sets does not finish in CBMC - the Chunks buffer of symbolic length; see the
//  concrete cases at the end of this file)

fn any_opt_bool() -> Option<bool> { if kani::any() { Some(kani::any()) } else { None } }

// ---- concrete attribute sets (the two harnesses above quantify over all of them but do not finish in CBMC: the
// Chunks buffer of symbolic length is too expensive; these run the same check on fixed sets, essentially by
// constant propagation). Bounded stand-ins.
fn check_face_case(under: u16, flags: u16) {
    let mut enc = TTYEncoder::new(any_caps());
    let mut out = Sink::new();
    let mut attrs = FaceAttrs::EMPTY; // built through the public API (the field is private to face.rs)
    if under == 1 { attrs = attrs | FaceAttrs::UNDERLINE; }
    if under == 2 { attrs = attrs | FaceAttrs::UNDERLINE_DOUBLE; }
    if under == 3 { attrs = attrs | FaceAttrs::UNDERLINE_CURLY; }
    if under == 4 { attrs = attrs | FaceAttrs::UNDERLINE_DOTTED; }
    if under == 5 { attrs = attrs | FaceAttrs::UNDERLINE_DASHED; }
    if flags & 1 != 0 { attrs = attrs | FaceAttrs::BOLD; }
    if flags & 2 != 0 { attrs = attrs | FaceAttrs::ITALIC; }
    if flags & 4 != 0 { attrs = attrs | FaceAttrs::BLINK; }
    if flags & 8 != 0 { attrs = attrs | FaceAttrs::REVERSE; }
    if flags & 16 != 0 { attrs = attrs | FaceAttrs::STRIKE; }
    let res = enc.encode(&mut out, TerminalCommand::Face(Face { fg: None, bg: None, attrs }));
    assert!(res.is_ok());
    std::mem::forget(res);
    std::mem::forget(enc);
    assert!(out.fmt_calls == 0 && out.len < 48);
    let s = parse_sgr(&out.bytes, out.len);
    assert!(s.well_formed && s.first == 0);
    let mut want: u32 = 1;
    if flags & 1 != 0 { want |= 1 << 1; }
    if flags & 2 != 0 { want |= 1 << 3; }
    if flags & 4 != 0 { want |= 1 << 5; }
    if flags & 8 != 0 { want |= 1 << 7; }
    if flags & 16 != 0 { want |= 1 << 9; }
    assert!(s.codes == want);
    assert!(if under == 0 { s.under == 255 } else { s.under == under as u8 });
    kani::cover!(true);
}

//# kind=bounded tier=quick props=C05 bound="Face with underline none and flags plain, no colours" fns=TTYEncoder::encode,Chunks::push,Chunks::drain | Face{underline none, plain} is emitted as one SGR sequence starting with 0 that selects exactly these attributes
#[kani::proof]
#[kani::unwind(26)]
fn c05_face_case_none_plain() { check_face_case(0, 0); }

//# kind=bounded tier=quick props=C05 bound="Face with underline none and flags bold, no colours" fns=TTYEncoder::encode,Chunks::push,Chunks::drain | Face{underline none, bold} is emitted as one SGR sequence starting with 0 that selects exactly these attributes
#[kani::proof]
#[kani::unwind(26)]
fn c05_face_case_none_bold() { check_face_case(0, 1); }

//# kind=bounded tier=quick props=C05 bound="Face with underline none and flags italic, no colours" fns=TTYEncoder::encode,Chunks::push,Chunks::drain | Face{underline none, italic} is emitted as one SGR sequence starting with 0 that selects exactly these attributes
#[kani::proof]
#[kani::unwind(26)]
fn c05_face_case_none_italic() { check_face_case(0, 2); }

//# kind=bounded tier=quick props=C05 bound="Face with underline none and flags blink, no colours" fns=TTYEncoder::encode,Chunks::push,Chunks::drain | Face{underline none, blink} is emitted as one SGR sequence starting with 0 that selects exactly these attributes
#[kani::proof]
#[kani::unwind(26)]
fn c05_face_case_none_blink() { check_face_case(0, 4); }

//# kind=bounded tier=quick props=C05 bound="Face with underline none and flags reverse, no colours" fns=TTYEncoder::encode,Chunks::push,Chunks::drain | Face{underline none, reverse} is emitted as one SGR sequence starting with 0 that selects exactly these attributes
#[kani::proof]
#[kani::unwind(26)]
fn c05_face_case_none_reverse() { check_face_case(0, 8); }

//# kind=bounded tier=quick props=C05 bound="Face with underline none and flags strike, no colours" fns=TTYEncoder::encode,Chunks::push,Chunks::drain | Face{underline none, strike} is emitted as one SGR sequence starting with 0 that selects exactly these attributes
#[kani::proof]
#[kani::unwind(26)]
fn c05_face_case_none_strike() { check_face_case(0, 16); }

//# kind=bounded tier=quick props=C05 bound="Face with underline none and flags all, no colours" fns=TTYEncoder::encode,Chunks::push,Chunks::drain | Face{underline none, all} is emitted as one SGR sequence starting with 0 that selects exactly these attributes
#[kani::proof]
#[kani::unwind(26)]
fn c05_face_case_none_all() { check_face_case(0, 31); }

//# kind=bounded tier=quick props=C05 bound="Face with underline straight and flags plain, no colours" fns=TTYEncoder::encode,Chunks::push,Chunks::drain | Face{underline straight, plain} is emitted as one SGR sequence starting with 0 that selects exactly these attributes
#[kani::proof]
#[kani::unwind(26)]
fn c05_face_case_straight_plain() { check_face_case(1, 0); }

//# kind=bounded tier=quick props=C05 bound="Face with underline straight and flags all, no colours" fns=TTYEncoder::encode,Chunks::push,Chunks::drain | Face{underline straight, all} is emitted as one SGR sequence starting with 0 that selects exactly these attributes
#[kani::proof]
#[kani::unwind(26)]
fn c05_face_case_straight_all() { check_face_case(1, 31); }

//# kind=bounded tier=quick props=C05 bound="Face with underline curly and flags plain, no colours" fns=TTYEncoder::encode,Chunks::push,Chunks::drain | Face{underline curly, plain} is emitted as one SGR sequence starting with 0 that selects exactly these attributes
#[kani::proof]
#[kani::unwind(26)]
fn c05_face_case_curly_plain() { check_face_case(3, 0); }

//# kind=bounded tier=quick props=C05 bound="Face with underline curly and flags all, no colours" fns=TTYEncoder::encode,Chunks::push,Chunks::drain | Face{underline curly, all} is emitted as one SGR sequence starting with 0 that selects exactly these attributes
#[kani::proof]
#[kani::unwind(26)]
fn c05_face_case_curly_all() { check_face_case(3, 31); }

//# kind=bounded tier=quick props=C05 bound="Face with underline dashed and flags plain, no colours" fns=TTYEncoder::encode,Chunks::push,Chunks::drain | Face{underline dashed, plain} is emitted as one SGR sequence starting with 0 that selects exactly these attributes
#[kani::proof]
#[kani::unwind(26)]
fn c05_face_case_dashed_plain() { check_face_case(5, 0); }

//# kind=bounded tier=quick props=C05 bound="Face with underline dashed and flags all, no colours" fns=TTYEncoder::encode,Chunks::push,Chunks::drain | Face{underline dashed, all} is emitted as one SGR sequence starting with 0 that selects exactly these attributes
#[kani::proof]
#[kani::unwind(26)]
fn c05_face_case_dashed_all() { check_face_case(5, 31); }

fn check_face_modify_case(m: FaceModify, want_codes: u32, want_under: u8) {
    let mut enc = TTYEncoder::new(any_caps());
    let mut out = Sink::new();
    let res = enc.encode(&mut out, TerminalCommand::FaceModify(m));
    assert!(res.is_ok());
    std::mem::forget(res);
    std::mem::forget(enc);
    assert!(out.fmt_calls == 0 && out.len < 48);
    if want_codes == 0 && want_under == 255 {
        assert!(out.len == 0); // an empty change emits nothing
    } else {
        let s = parse_sgr(&out.bytes, out.len);
        assert!(s.well_formed);
        assert!(s.codes == want_codes && s.under == want_under);
        if m.reset { assert!(s.first == 0); }
    }
    kani::cover!(true);
}

//# kind=bounded tier=quick props=C05,C06 bound="FaceModify case `empty`, no colours" fns=TTYEncoder::encode,Chunks::push,Chunks::drain | FaceModify `empty` is emitted with exactly the standard SGR codes for what it requests (1/22 bold, 3/23 italic, 5/25 blink, 9/29 strike, 4 / 4:n / 24 underline, 0 first iff reset) and nothing else
#[kani::proof]
#[kani::unwind(30)]
fn c05_face_modify_case_empty() {
    let m = FaceModify { reset: false, fg: None, bg: None, underline: None, underline_color: None, bold: None, italic: None, blink: None, strike: None };
    check_face_modify_case(m, 0u32, 255);
}

//# kind=bounded tier=quick props=C05,C06 bound="FaceModify case `reset_bold_on`, no colours" fns=TTYEncoder::encode,Chunks::push,Chunks::drain | FaceModify `reset_bold_on` is emitted with exactly the standard SGR codes for what it requests (1/22 bold, 3/23 italic, 5/25 blink, 9/29 strike, 4 / 4:n / 24 underline, 0 first iff reset) and nothing else
#[kani::proof]
#[kani::unwind(30)]
fn c05_face_modify_case_reset_bold_on() {
    let m = FaceModify { reset: true, fg: None, bg: None, underline: None, underline_color: None, bold: Some(true), italic: None, blink: None, strike: None };
    check_face_modify_case(m, 3u32, 255);
}

//# kind=bounded tier=quick props=C05,C06 bound="FaceModify case `bold_off`, no colours" fns=TTYEncoder::encode,Chunks::push,Chunks::drain | FaceModify `bold_off` is emitted with exactly the standard SGR codes for what it requests (1/22 bold, 3/23 italic, 5/25 blink, 9/29 strike, 4 / 4:n / 24 underline, 0 first iff reset) and nothing else
#[kani::proof]
#[kani::unwind(30)]
fn c05_face_modify_case_bold_off() {
    let m = FaceModify { reset: false, fg: None, bg: None, underline: None, underline_color: None, bold: Some(false), italic: None, blink: None, strike: None };
    check_face_modify_case(m, 4194304u32, 255);
}

//# kind=bounded tier=quick props=C05,C06 bound="FaceModify case `italic_off_strike_on`, no colours" fns=TTYEncoder::encode,Chunks::push,Chunks::drain | FaceModify `italic_off_strike_on` is emitted with exactly the standard SGR codes for what it requests (1/22 bold, 3/23 italic, 5/25 blink, 9/29 strike, 4 / 4:n / 24 underline, 0 first iff reset) and nothing else
#[kani::proof]
#[kani::unwind(30)]
fn c05_face_modify_case_italic_off_strike_on() {
    let m = FaceModify { reset: false, fg: None, bg: None, underline: None, underline_color: None, bold: None, italic: Some(false), blink: None, strike: Some(true) };
    check_face_modify_case(m, 8389120u32, 255);
}

//# kind=bounded tier=quick props=C05,C06 bound="FaceModify case `underline_none`, no colours" fns=TTYEncoder::encode,Chunks::push,Chunks::drain | FaceModify `underline_none` is emitted with exactly the standard SGR codes for what it requests (1/22 bold, 3/23 italic, 5/25 blink, 9/29 strike, 4 / 4:n / 24 underline, 0 first iff reset) and nothing else
#[kani::proof]
#[kani::unwind(30)]
fn c05_face_modify_case_underline_none() {
    let m = FaceModify { reset: false, fg: None, bg: None, underline: Some(UnderlineStyle::None), underline_color: None, bold: None, italic: None, blink: None, strike: None };
    check_face_modify_case(m, 16777216u32, 255);
}

//# kind=bounded tier=quick props=C05,C06 bound="FaceModify case `underline_dashed_blink_on`, no colours" fns=TTYEncoder::encode,Chunks::push,Chunks::drain | FaceModify `underline_dashed_blink_on` is emitted with exactly the standard SGR codes for what it requests (1/22 bold, 3/23 italic, 5/25 blink, 9/29 strike, 4 / 4:n / 24 underline, 0 first iff reset) and nothing else
#[kani::proof]
#[kani::unwind(30)]
fn c05_face_modify_case_underline_dashed_blink_on() {
    let m = FaceModify { reset: false, fg: None, bg: None, underline: Some(UnderlineStyle::Dashed), underline_color: None, bold: None, italic: None, blink: Some(true), strike: None };
    check_face_modify_case(m, 32u32, 5);
}

//# kind=bounded tier=quick props=C05,C06 bound="FaceModify case `all_off`, no colours" fns=TTYEncoder::encode,Chunks::push,Chunks::drain | FaceModify `all_off` is emitted with exactly the standard SGR codes for what it requests (1/22 bold, 3/23 italic, 5/25 blink, 9/29 strike, 4 / 4:n / 24 underline, 0 first iff reset) and nothing else
#[kani::proof]
#[kani::unwind(30)]
fn c05_face_modify_case_all_off() {
    let m = FaceModify { reset: false, fg: None, bg: None, underline: Some(UnderlineStyle::Straight), underline_color: None, bold: Some(false), italic: Some(false), blink: Some(false), strike: Some(false) };
    check_face_modify_case(m, 583008256u32, 1);
}

// ---- alt-screen keyboard-level bracketing: ORDER of the level command relative to the mode switch
// Sink that records literal bytes and writes the marker 0xFE for every formatted write; TTYEncoder::kitty_level is replaced by
// a stub that records (0xF0, level) when the terminal has the kitty keyboard - so the harness sees in which order the level is
// set and the screen is switched, although core::fmt itself is outside CBMC's reach.
struct OrderSink { bytes: [u8; 16], len: usize }
impl OrderSink { fn push(&mut self, b: u8) { if self.len < 16 { self.bytes[self.len] = b; } self.len += 1; } }
impl Write for OrderSink {
    fn write(&mut self, buf: &[u8]) -> io::Result<usize> { let mut i = 0; while i < buf.len() { self.push(buf[i]); i += 1; } Ok(buf.len()) }
    fn flush(&mut self) -> io::Result<()> { Ok(()) }
    fn write_fmt(&mut self, _args: std::fmt::Arguments<'_>) -> io::Result<()> { self.push(0xFE); Ok(()) }
}
fn stub_kitty_level<W: Write>(enc: &TTYEncoder, mut out: W, level: usize) -> Result<(), Error> {
    if enc.caps.kitty_keyboard { out.write_all(&[0xF0, level as u8])?; }
    Ok(())
}

//# kind=complete tier=quick props=C05 fns=TTYEncoder::encode | DecModeSet on the alternate screen brackets the kitty keyboard level on the side of the ALTERNATE screen: entering = switch, then set the level; leaving = reset the level to 0, then switch (so the main screen's own level is never touched); every other mode emits the switch only; without the kitty keyboard no level command at all
#[kani::proof]
#[kani::unwind(4)]
#[kani::stub(TTYEncoder::kitty_level, stub_kitty_level)]
fn c05_altscreen_level_order() {
    let caps = any_caps();
    let kitty = caps.kitty_keyboard;
    let mut enc = TTYEncoder::new(caps);
    let mut out = OrderSink { bytes: [0; 16], len: 0 };
    let enable: bool = kani::any();
    let mode = any_mode();
    let alt = matches!(mode, DecMode::AltScreen);
    let r = enc.encode(&mut out, TerminalCommand::DecModeSet { enable, mode });
    assert!(r.is_ok());
    std::mem::forget(r);
    std::mem::forget(enc);
    if alt && kitty {
        assert!(out.len == 3);
        if enable { assert!(out.bytes[0] == 0xFE && out.bytes[1] == 0xF0 && out.bytes[2] == KEYBOARD_LEVEL as u8 && KEYBOARD_LEVEL > 0 && KEYBOARD_LEVEL < 256); }
        else { assert!(out.bytes[0] == 0xF0 && out.bytes[1] == 0 && out.bytes[2] == 0xFE); }
    } else {
        assert!(out.len == 1 && out.bytes[0] == 0xFE);
    }
    kani::cover!(alt && kitty && !enable);
}

// ---- colours of Face / FaceModify: WHICH colour goes to WHICH SGR role, in which order, at which depth
// color_sgr_encode (its digits go through core::fmt) is replaced by a recorder that pushes one marker chunk per call
static mut C_CALLS: usize = 0;
static mut C_ROLE: [u8; 4] = [0; 4];
static mut C_RGBA: [[u8; 4]; 4] = [[0; 4]; 4];
static mut C_DEPTH: [u8; 4] = [0; 4];
fn depth_code(d: ColorDepth) -> u8 { match d { ColorDepth::TrueColor => 0, ColorDepth::EightBit => 1, ColorDepth::Gray => 2 } }
fn stub_color_sgr_encode<C: Color>(chunks: &mut Chunks, color: C, depth: ColorDepth, sgr_color_type: SGRColorType) -> Result<(), Error>
where
    LinColor: From<C>,
{
    let role = match sgr_color_type { SGRColorType::Foreground => b'F', SGRColorType::Background => b'B', SGRColorType::Underline => b'U' };
    unsafe { if C_CALLS < 4 { C_ROLE[C_CALLS] = role; C_RGBA[C_CALLS] = color.to_rgba(); C_DEPTH[C_CALLS] = depth_code(depth); } C_CALLS += 1; }
    chunks.push(&[role]);
    Ok(())
}

//# kind=complete tier=quick props=C05,C06 fns=TTYEncoder::encode | Face with a foreground and a background colour (any values) and no attributes: one SGR sequence `ESC[0;F;Bm` - reset first, then the foreground colour in the foreground role, then the background colour in the background role, each encoded at the terminal's colour depth (the digits of a colour are color_sgr_encode's, replaced by a recorder)
#[kani::proof]
#[kani::unwind(12)]
#[kani::stub(color_sgr_encode, stub_color_sgr_encode)]
fn c05_face_colour_roles() {
    let caps = any_caps();
    let depth = depth_code(caps.depth);
    let mut enc = TTYEncoder::new(caps);
    let mut out = Sink::new();
    let fg = RGBA::new(kani::any(), kani::any(), kani::any(), kani::any());
    let bg = RGBA::new(kani::any(), kani::any(), kani::any(), kani::any());
    let (has_fg, has_bg) = (true, true);   // (symbolic presence flags double the Vec-growth paths of Chunks: no verdict in 10 min)
    let face = Face::default().with_fg(if has_fg { Some(fg) } else { None }).with_bg(if has_bg { Some(bg) } else { None });
    let r = enc.encode(&mut out, TerminalCommand::Face(face));
    assert!(r.is_ok() && out.fmt_calls == 0);
    std::mem::forget(r); std::mem::forget(enc);
    // expected bytes: ESC [ 0 (;F)? (;B)? m
    let mut want = [0u8; 8]; let mut n = 0;
    for b in [0x1bu8, b'[', b'0'] { want[n] = b; n += 1; }
    if has_fg { want[n] = b';'; want[n + 1] = b'F'; n += 2; }
    if has_bg { want[n] = b';'; want[n + 1] = b'B'; n += 2; }
    want[n] = b'm'; n += 1;
    assert!(out.len == n);
    let mut i = 0; while i < n { assert!(out.bytes[i] == want[i]); i += 1; }
    unsafe {
        assert!(C_CALLS == has_fg as usize + has_bg as usize);
        let mut k = 0;
        if has_fg { assert!(C_ROLE[k] == b'F' && C_RGBA[k] == fg.to_rgba() && C_DEPTH[k] == depth); k += 1; }
        if has_bg { assert!(C_ROLE[k] == b'B' && C_RGBA[k] == bg.to_rgba() && C_DEPTH[k] == depth); }
    }
    kani::cover!(has_fg && has_bg);
}

//# kind=complete tier=quick props=C05,C06 fns=TTYEncoder::encode | FaceModify with foreground, background and underline colours (any values) and nothing else: `ESC[F;B;Um` with each colour in its own role and order, at the terminal's depth
#[kani::proof]
#[kani::unwind(12)]
#[kani::stub(color_sgr_encode, stub_color_sgr_encode)]
fn c05_face_modify_colour_roles() {
    let caps = any_caps();
    let depth = depth_code(caps.depth);
    let mut enc = TTYEncoder::new(caps);
    let mut out = Sink::new();
    let cs = [RGBA::new(kani::any(), kani::any(), kani::any(), kani::any()), RGBA::new(kani::any(), kani::any(), kani::any(), kani::any()), RGBA::new(kani::any(), kani::any(), kani::any(), kani::any())];
    let has: [bool; 3] = [true, true, true];
    let m = FaceModify { reset: false, fg: if has[0] { Some(cs[0]) } else { None }, bg: if has[1] { Some(cs[1]) } else { None }, underline: None,
                         underline_color: if has[2] { Some(cs[2]) } else { None }, bold: None, italic: None, blink: None, strike: None };
    let r = enc.encode(&mut out, TerminalCommand::FaceModify(m));
    assert!(r.is_ok() && out.fmt_calls == 0);
    std::mem::forget(r); std::mem::forget(enc);
    let roles = [b'F', b'B', b'U'];
    let count = has[0] as usize + has[1] as usize + has[2] as usize;
    unsafe { assert!(C_CALLS == count); }
    if count == 0 { assert!(out.len == 0); } else {
        assert!(out.len == 2 + 2 * count && out.bytes[0] == 0x1b && out.bytes[1] == b'[' && out.bytes[out.len - 1] == b'm');
        let mut k = 0; let mut j = 0;
        while j < 3 {
            if has[j] {
                assert!(out.bytes[2 + 2 * k] == roles[j]);
                if k + 1 < count { assert!(out.bytes[3 + 2 * k] == b';'); }
                unsafe { assert!(C_ROLE[k] == roles[j] && C_RGBA[k] == cs[j].to_rgba() && C_DEPTH[k] == depth); }
                k += 1;
            }
            j += 1;
        }
    }
    kani::cover!(count == 3);
}

//# kind=bounded tier=quick props=C05 bound="two fixed commands in a row on one encoder: Face{bold, curly underline} then FaceModify{italic on}" fns="TTYEncoder::encode,Chunks::push,Chunks::drain,Chunks::clear" | each command is encoded on its own: the parameter list of the first does not leak into the second, parameters are joined by exactly one `;`, and the bytes are exactly `ESC[0;4:3;1m` then `ESC[3m`
#[kani::proof]
#[kani::unwind(30)]
fn c05_two_commands_exact_bytes() {
    let mut enc = TTYEncoder::new(any_caps());
    let mut out = Sink::new();
    let attrs = FaceAttrs::EMPTY | FaceAttrs::UNDERLINE_CURLY | FaceAttrs::BOLD;
    let r1 = enc.encode(&mut out, TerminalCommand::Face(Face { fg: None, bg: None, attrs }));
    assert!(r1.is_ok());
    let n1 = out.len;
    let m = FaceModify { reset: false, fg: None, bg: None, underline: None, underline_color: None, bold: None, italic: Some(true), blink: None, strike: None };
    let r2 = enc.encode(&mut out, TerminalCommand::FaceModify(m));
    assert!(r2.is_ok() && out.fmt_calls == 0);
    let want1 = b"\x1b[0;4:3;1m";
    let want2 = b"\x1b[3m";
    assert!(n1 == want1.len() && out.len == want1.len() + want2.len());
    let mut i = 0; while i < want1.len() { assert!(out.bytes[i] == want1[i]); i += 1; }
    let mut j = 0; while j < want2.len() { assert!(out.bytes[n1 + j] == want2[j]); j += 1; }
    kani::cover!(true);
    std::mem::forget(r1); std::mem::forget(r2); std::mem::forget(enc);
}
