//@ target: src/image.rs

//# kind=complete tier=quick props=C13 fns="OcTreePath::new,<OcTreePath as Iterator>::next" | the octree path of any colour is exactly 8 child indices, step i = (r_i<<2)|(g_i<<1)|b_i with bit i counted from the most significant, then None forever
#[kani::proof]
#[kani::unwind(10)]
fn c13_octree_path() {
    let (r, g, b): (u8, u8, u8) = (kani::any(), kani::any(), kani::any());
    let mut p = OcTreePath::new(RGBA::new(r, g, b, kani::any()));
    let mut i = 0;
    while i < 8 {
        let bit = |x: u8| -> usize { ((x >> (7 - i)) & 1) as usize };
        assert!(p.next() == Some((bit(r) << 2) | (bit(g) << 1) | bit(b)));
        i += 1;
    }
    assert!(p.next().is_none());
    assert!(p.next().is_none());
    assert!(p.rgba().to_rgb() == [r, g, b]);
    kani::cover!(r == 0b10101010);
}

fn any_info() -> OcTreeInfo {
    let leaf_count: usize = kani::any();
    let color_count: usize = kani::any();
    // counters are bounded by the number of pixels of an image held in memory
    kani::assume(leaf_count < (1 << 60) && color_count < (1 << 60));
    let m: usize = kani::any();
    OcTreeInfo { leaf_count, color_count, min_color_count: if kani::any() { Some(m) } else { None } }
}

//# kind=complete tier=quick props=C13 fns=OcTreeInfo::join,OcTreeInfo::empty | the per-node summary is a commutative monoid: join is associative and commutative with unit empty(); counts add, min_color_count is the minimum of the present ones
#[kani::proof]
#[kani::unwind(2)]
fn c13_info_monoid() {
    let (a, b, c) = (any_info(), any_info(), any_info());
    assert!(a.join(OcTreeInfo::empty()) == a && OcTreeInfo::empty().join(a) == a);
    assert!(a.join(b) == b.join(a));
    assert!(a.join(b).join(c) == a.join(b.join(c)));
    let j = a.join(b);
    assert!(j.leaf_count == a.leaf_count + b.leaf_count && j.color_count == a.color_count + b.color_count);
    match (a.min_color_count, b.min_color_count, j.min_color_count) {
        (Some(x), Some(y), Some(z)) => assert!(z == if x < y { x } else { y }),
        (Some(x), None, Some(z)) | (None, Some(x), Some(z)) => assert!(z == x),
        (None, None, None) => {}
        _ => assert!(false),
    }
    kani::cover!(a.min_color_count.is_some() && b.min_color_count.is_none());
}

// (OcTreeLeaf mean arithmetic: proved in the Verus unit `octleaf` - three symbolic 64-bit divisions do not finish in CBMC)

//# kind=complete tier=quick props=C13 fns=ColorError::add,ColorError::between | error diffusion never leaves the byte range: add() clamps every channel to 0..=255 for any finite or infinite error and is the identity for a zero error; between(a,b).add(b) == a
#[kani::proof]
#[kani::unwind(6)]
fn c13_color_error_clamp() {
    let e: [f32; 3] = [kani::any(), kani::any(), kani::any()];
    kani::assume(!e[0].is_nan() && !e[1].is_nan() && !e[2].is_nan());
    let c = RGBA::new(kani::any(), kani::any(), kani::any(), 255);
    let [r, g, b] = c.to_rgb();
    let out = ColorError(e).add(c).to_rgb();
    let want = |x: u8, d: f32| -> u8 { let s = x as f32 + d; if s <= 0.0 { 0 } else if s >= 255.0 { 255 } else { s as u8 } };
    assert!(out[0] == want(r, e[0]) && out[1] == want(g, e[1]) && out[2] == want(b, e[2]));
    assert!(ColorError::new().add(c) == c);
    let d = RGBA::new(kani::any(), kani::any(), kani::any(), 255);
    assert!(ColorError::between(c, d).add(d) == c);
    kani::cover!(e[0] > 300.0 && e[1] < -300.0);
}

// (KDTree::new on a 2-colour palette + find: std's sort_by_key does not finish in CBMC (300 s) and Kani 0.68 refuses to
//  stub the generic `<[T]>::sort_by_key`; construction stays an assumption of the C13 claim)

// ---------------------------------------------------------------- palette extraction
// leaf with fixed sums (symbolic sums mean three symbolic 64-bit divisions per leaf in `to_rgba`: no verdict in 5 min) and any stale index
fn any_leaf() -> OcTreeLeaf {
    OcTreeLeaf { red_acc: 700, green_acc: 35, blue_acc: 1400, color_count: 7, index: kani::any() }
}
fn leaf_or_empty(is_leaf: bool) -> OcTreeNode { if is_leaf { OcTreeNode::Leaf(any_leaf()) } else { OcTreeNode::Empty } }

//# kind=bounded tier=quick props=C13 bound="one-level octree with the fixed occupancy L.L..LL. (L leaf, . empty; a sub-tree child, or a symbolic occupancy pattern, makes CBMC unroll palette_rec's recursion without end); fixed leaf sums, any stale leaf indices, any number (0..=16) of colours in the `removed` bucket" fns=OcTree::build_palette | the palette has exactly one entry per leaf - nothing for empty nodes or for the bucket of pruned colours -, leaves are numbered 0,1,2.. in child order, and palette[leaf.index] is that leaf's mean colour: every index the octree hands out refers to a palette colour
#[kani::proof]
#[kani::unwind(10)]
fn c13_build_palette_one_level() {
    let top: [bool; 8] = [true, false, true, false, false, true, true, false];
    let mut tree = OcTree::new();
    let mut k = 0;
    while k < 8 { tree.children[k] = leaf_or_empty(top[k]); k += 1; }
    let rc: usize = kani::any();
    kani::assume(rc <= 16);
    tree.removed = OcTreeLeaf { color_count: rc, ..any_leaf() };
    let palette = tree.build_palette();
    let mut n = 0;
    let mut k = 0;
    while k < 8 {
        if let OcTreeNode::Leaf(leaf) = &tree.children[k] {
            assert!(leaf.index == n && n < palette.len());
            assert!(palette[n].to_rgba() == [100, 5, 200, 255]);
            n += 1;
        }
        k += 1;
    }
    assert!(n == 4);
    assert!(palette.len() == n);
    kani::cover!(rc > 0);
    std::mem::forget(tree);
    std::mem::forget(palette);
}

//# kind=bounded tier=quick props=C13 bound="the same one-level octree; every 32-bit query colour" fns=OcTree::find,OcTree::build_palette | after build_palette, looking any colour up in the octree yields either nothing (its first path step is an empty child) or an index inside the palette whose palette entry is the colour returned
#[kani::proof]
#[kani::unwind(10)]
fn c13_octree_find_after_palette() {
    let top: [bool; 8] = [true, false, true, false, false, true, true, false];
    let mut tree = OcTree::new();
    let mut k = 0;
    while k < 8 { tree.children[k] = leaf_or_empty(top[k]); k += 1; }
    let palette = tree.build_palette();
    let (r, g, b): (u8, u8, u8) = (kani::any(), kani::any(), kani::any());
    let first = (((r >> 7) as usize) << 2) | (((g >> 7) as usize) << 1) | ((b >> 7) as usize);
    match tree.find(RGBA::new(r, g, b, kani::any())) {
        Some((i, c)) => {
            assert!(top[first]);
            assert!(i < palette.len());
            assert!(palette[i].to_rgba() == c.to_rgba());
        }
        None => assert!(!top[first]),
    }
    kani::cover!(top[first]);
    kani::cover!(!top[first]);
    std::mem::forget(tree);
    std::mem::forget(palette);
}
