//@ target: src/image.rs

//# kind=complete tier=quick props=C13 fns="OcTreePath::new,<OcTreePath as Iterator>::next" | the octree path of any colour is exactly 8 child indices, step i = (r_i<<2)|(g_i<<1)|b_i with bit i counted from the most significant, then None forever
#[kani::proof]
#[kani::unwind(10)]
fn c13_octree_path() {
    let (r, g, b): (u8, u8, u8) = (kani::any(), kani::any(), kani::any());
    let mut p = OcTreePath::new(RGBA::new(r, g, b, kani::any()));
    let mut i = 0;
    while i < 8 {
        let bit = |x: u8| -> usize { ((x >> (7 - i)) & 1) as usize };
        assert!(p.next() == Some((bit(r) << 2) | (bit(g) << 1) | bit(b)));
        i += 1;
    }
    assert!(p.next().is_none());
    assert!(p.next().is_none());
    assert!(p.rgba().to_rgb() == [r, g, b]);
    kani::cover!(r == 0b10101010);
}

fn any_info() -> OcTreeInfo {
    let leaf_count: usize = kani::any();
    let color_count: usize = kani::any();
    // counters are bounded by the number of pixels of an image held in memory
    kani::assume(leaf_count < (1 << 60) && color_count < (1 << 60));
    let m: usize = kani::any();
    OcTreeInfo { leaf_count, color_count, min_color_count: if kani::any() { Some(m) } else { None } }
}

//# kind=complete tier=quick props=C13 fns=OcTreeInfo::join,OcTreeInfo::empty | the per-node summary is a commutative monoid: join is associative and commutative with unit empty(); counts add, min_color_count is the minimum of the present ones
#[kani::proof]
#[kani::unwind(2)]
fn c13_info_monoid() {
    let (a, b, c) = (any_info(), any_info(), any_info());
    assert!(a.join(OcTreeInfo::empty()) == a && OcTreeInfo::empty().join(a) == a);
    assert!(a.join(b) == b.join(a));
    assert!(a.join(b).join(c) == a.join(b.join(c)));
    let j = a.join(b);
    assert!(j.leaf_count == a.leaf_count + b.leaf_count && j.color_count == a.color_count + b.color_count);
    match (a.min_color_count, b.min_color_count, j.min_color_count) {
        (Some(x), Some(y), Some(z)) => assert!(z == if x < y { x } else { y }),
        (Some(x), None, Some(z)) | (None, Some(x), Some(z)) => assert!(z == x),
        (None, None, None) => {}
        _ => assert!(false),
    }
    kani::cover!(a.min_color_count.is_some() && b.min_color_count.is_none());
}

// (OcTreeLeaf mean arithmetic: proved in the Verus unit `octleaf` - three symbolic 64-bit divisions do not finish in CBMC)

//# kind=complete tier=quick props=C13 fns=ColorError::add,ColorError::between | error diffusion never leaves the byte range: add() clamps every channel to 0..=255 for any finite or infinite error and is the identity for a zero error; between(a,b).add(b) == a
#[kani::proof]
#[kani::unwind(6)]
fn c13_color_error_clamp() {
    let e: [f32; 3] = [kani::any(), kani::any(), kani::any()];
    kani::assume(!e[0].is_nan() && !e[1].is_nan() && !e[2].is_nan());
    let c = RGBA::new(kani::any(), kani::any(), kani::any(), 255);
    let [r, g, b] = c.to_rgb();
    let out = ColorError(e).add(c).to_rgb();
    let want = |x: u8, d: f32| -> u8 { let s = x as f32 + d; if s <= 0.0 { 0 } else if s >= 255.0 { 255 } else { s as u8 } };
    assert!(out[0] == want(r, e[0]) && out[1] == want(g, e[1]) && out[2] == want(b, e[2]));
    assert!(ColorError::new().add(c) == c);
    let d = RGBA::new(kani::any(), kani::any(), kani::any(), 255);
    assert!(ColorError::between(c, d).add(d) == c);
    kani::cover!(e[0] > 300.0 && e[1] < -300.0);
}

// (KDTree::new on a 2-colour palette + find: std's sort_by_key does not finish in CBMC (300 s) and Kani 0.68 refuses to
//  stub the generic `<[T]>::sort_by_key`; construction stays an assumption of the C13 claim)
