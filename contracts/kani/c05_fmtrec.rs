//@ target: src/encoder.rs
//@ record-fmt src/encoder.rs
//@ separate

use crate::Position;

// Formatted output under K2: every write!(dst, "literal", args..) of encoder.rs records its format literal and its integer
// arguments (engine normalisation K2); the real write is switched off, so the record stands for the bytes core::fmt would produce
// (trusted: core::fmt renders `{}` of an integer as its decimal digits and copies the literal parts).
struct NullSink;
impl Write for NullSink {
    fn write(&mut self, buf: &[u8]) -> io::Result<usize> { Ok(buf.len()) }
    fn flush(&mut self) -> io::Result<()> { Ok(()) }
}
fn str_eq(a: &str, b: &str) -> bool {
    let (a, b) = (a.as_bytes(), b.as_bytes());
    if a.len() != b.len() { return false; }
    let mut i = 0;
    while i < a.len() { if a[i] != b[i] { return false; } i += 1; }
    true
}
fn caps() -> TerminalCaps { TerminalCaps { depth: ColorDepth::TrueColor, glyphs: kani::any(), kitty_keyboard: kani::any() } }

//# kind=complete tier=quick props=C05 fns=TTYEncoder::encode | CursorTo(row, col) is CUP with the 1-based row first and the 1-based column second (`ESC [ row+1 ; col+1 H`, saturating at usize::MAX), for every position
#[kani::proof]
#[kani::unwind(12)]
fn c05_fmt_cursor_to() {
    use kfmt_rec::*;
    unsafe { REAL = false; }
    let mut enc = TTYEncoder::new(caps());
    let pos = Position { row: kani::any(), col: kani::any() };
    let r = enc.encode(&mut NullSink, TerminalCommand::CursorTo(pos));
    assert!(r.is_ok());
    unsafe {
        assert!(NF == 1 && str_eq(FMTS[0], "\x1b[{};{}H"));
        assert!(NA == 2 && OTHERS == 0);
        assert!(ARGS[0] == pos.row.saturating_add(1) as i128 && ARGS[1] == pos.col.saturating_add(1) as i128);
    }
    kani::cover!(pos.row != pos.col);
    std::mem::forget(r);
    std::mem::forget(enc);
}

fn any_mode() -> (DecMode, i128) {
    let k: u8 = kani::any();
    kani::assume(k < 9);
    // DEC private mode numbers (xterm ctlseqs / kitty): the expected values come from the standard, not from the enum
    match k {
        0 => (DecMode::VisibleCursor, 25), 1 => (DecMode::AutoWrap, 7), 2 => (DecMode::SixelScrolling, 80), 3 => (DecMode::MouseReport, 1000),
        4 => (DecMode::MouseMotions, 1003), 5 => (DecMode::MouseSGR, 1006), 6 => (DecMode::AltScreen, 1049), 7 => (DecMode::SynchronizedOutput, 2026),
        _ => (DecMode::BracketedPaste, 2004),
    }
}

//# kind=complete tier=quick props=C05 fns=TTYEncoder::encode | DecModeGet(mode) is DECRQM for a DEC private mode, `ESC [ ? <mode number> $ p`, with the xterm number of that mode, for every mode
#[kani::proof]
#[kani::unwind(12)]
fn c05_fmt_dec_mode_get() {
    use kfmt_rec::*;
    unsafe { REAL = false; }
    let mut enc = TTYEncoder::new(caps());
    let (mode, number) = any_mode();
    let r = enc.encode(&mut NullSink, TerminalCommand::DecModeGet(mode));
    assert!(r.is_ok());
    unsafe {
        assert!(NF == 1 && str_eq(FMTS[0], "\x1b[?{}$p"));
        assert!(NA == 1 && OTHERS == 0 && ARGS[0] == number);
    }
    kani::cover!(number == 2026);
    std::mem::forget(r);
    std::mem::forget(enc);
}

//# kind=complete tier=quick props=C05 fns=TTYEncoder::encode | DecModeSet is DECSET / DECRST `ESC [ ? <mode number> h|l` with the xterm number of the mode and `h` exactly when enabling (terminals without the kitty keyboard protocol: nothing else is emitted), for every mode
#[kani::proof]
#[kani::unwind(12)]
fn c05_fmt_dec_mode_set() {
    use kfmt_rec::*;
    unsafe { REAL = false; }
    let mut enc = TTYEncoder::new(TerminalCaps { depth: ColorDepth::TrueColor, glyphs: kani::any(), kitty_keyboard: false });
    let (mode, number) = any_mode();
    let enable: bool = kani::any();
    let r = enc.encode(&mut NullSink, TerminalCommand::DecModeSet { enable, mode });
    assert!(r.is_ok());
    unsafe {
        assert!(NF == 1 && str_eq(FMTS[0], "\x1b[?{}{}"));
        assert!(NA == 2 && OTHERS == 0 && ARGS[0] == number);
        assert!(ARGS[1] == ((1 << 8) | (if enable { b'h' } else { b'l' }) as i128));
    }
    kani::cover!(enable);
    std::mem::forget(r);
    std::mem::forget(enc);
}

//# kind=complete tier=quick props=C05 fns=TTYEncoder::encode | CursorMove{row, col} is CUF/CUB for the column (`C` right for positive, `D` left for negative) followed by CUD/CUU for the row (`B` down for positive, `A` up for negative), each with the magnitude of the move (i32::MIN included) and omitted for zero
#[kani::proof]
#[kani::unwind(12)]
fn c05_fmt_cursor_move() {
    use kfmt_rec::*;
    unsafe { REAL = false; }
    let mut enc = TTYEncoder::new(caps());
    let (row, col): (i32, i32) = (kani::any(), kani::any());
    let r = enc.encode(&mut NullSink, TerminalCommand::CursorMove { row, col });
    assert!(r.is_ok());
    unsafe {
        let mut k = 0;
        if col != 0 {
            assert!(str_eq(FMTS[k], if col > 0 { "\x1b[{}C" } else { "\x1b[{}D" }));
            assert!(ARGS[k] == (col as i128).abs());
            k += 1;
        }
        if row != 0 {
            assert!(str_eq(FMTS[k], if row > 0 { "\x1b[{}B" } else { "\x1b[{}A" }));
            assert!(ARGS[k] == (row as i128).abs());
            k += 1;
        }
        assert!(NF == k && NA == k && OTHERS == 0);
    }
    kani::cover!(row == i32::MIN && col > 0);
    std::mem::forget(r);
    std::mem::forget(enc);
}

//# kind=complete tier=quick props=C05 fns=TTYEncoder::encode | Scroll(n) is SU `ESC [ n S` for a positive count (scroll up), SD `ESC [ |n| T` for a negative one (i32::MIN included), nothing for zero; EraseChars(n) is ECH `ESC [ n X`
#[kani::proof]
#[kani::unwind(12)]
fn c05_fmt_scroll_erase() {
    use kfmt_rec::*;
    unsafe { REAL = false; }
    let mut enc = TTYEncoder::new(caps());
    if kani::any() {
        let n: i32 = kani::any();
        let r = enc.encode(&mut NullSink, TerminalCommand::Scroll(n));
        assert!(r.is_ok());
        unsafe {
            if n == 0 { assert!(NF == 0 && NA == 0); } else {
                assert!(NF == 1 && NA == 1 && OTHERS == 0);
                assert!(str_eq(FMTS[0], if n > 0 { "\x1b[{}S" } else { "\x1b[{}T" }));
                assert!(ARGS[0] == (n as i128).abs());
            }
        }
        std::mem::forget(r);
    } else {
        let n: usize = kani::any();
        let r = enc.encode(&mut NullSink, TerminalCommand::EraseChars(n));
        assert!(r.is_ok());
        unsafe { assert!(NF == 1 && NA == 1 && OTHERS == 0 && str_eq(FMTS[0], "\x1b[{}X") && ARGS[0] == n as i128); }
        std::mem::forget(r);
    }
    kani::cover!(true);
    std::mem::forget(enc);
}

//# kind=complete tier=quick props=C05 fns=TTYEncoder::encode | ScrollRegion{start, end} is DECSTBM `ESC [ start+1 ; end+1 r` (1-based, top first) for a non-empty region and the reset form `ESC [ r` otherwise; a palette colour query is OSC 4 with the index; KeyboardLevel(n) is the kitty `ESC [ = n u` on terminals with that protocol and nothing otherwise
#[kani::proof]
#[kani::unwind(12)]
fn c05_fmt_region_palette_level() {
    use kfmt_rec::*;
    unsafe { REAL = false; }
    let c = caps();
    let kitty = c.kitty_keyboard;
    let mut enc = TTYEncoder::new(c);
    let which: u8 = kani::any();
    kani::assume(which < 2);
    if which == 0 {
        let (start, end): (usize, usize) = (kani::any(), kani::any());
        let r = enc.encode(&mut NullSink, TerminalCommand::ScrollRegion { start, end });
        assert!(r.is_ok());
        unsafe {
            if end > start {
                assert!(NF == 1 && NA == 2 && OTHERS == 0 && str_eq(FMTS[0], "\x1b[{};{}r"));
                assert!(ARGS[0] == start as i128 + 1 && ARGS[1] == (end.saturating_add(1)) as i128);
            } else {
                assert!(NF == 1 && NA == 0 && str_eq(FMTS[0], "\x1b[r"));
            }
        }
        std::mem::forget(r);
    } else {
        let n: usize = kani::any();
        let r = enc.encode(&mut NullSink, TerminalCommand::KeyboardLevel(n));
        assert!(r.is_ok());
        unsafe {
            if kitty { assert!(NF == 1 && NA == 1 && OTHERS == 0 && str_eq(FMTS[0], "\x1b[={}u") && ARGS[0] == n as i128); }
            else { assert!(NF == 0 && NA == 0); }
        }
        std::mem::forget(r);
    }
    kani::cover!(which == 1 && kitty);
    std::mem::forget(enc);
}

//# kind=complete tier=quick props=C05 fns=TTYEncoder::encode | a colour query is one OSC string: `ESC ]`, then `10;` for the foreground, `11;` for the background or `4;<index>;` for a palette entry, then `?`, then ST (`ESC \`) - in that order and nothing else; DeviceAttrs is DA1 `ESC [ c`
#[kani::proof]
#[kani::unwind(12)]
fn c05_fmt_color_query() {
    use kfmt_rec::*;
    unsafe { REAL = false; }
    let mut enc = TTYEncoder::new(caps());
    let which: u8 = kani::any();
    kani::assume(which < 4);
    let index: usize = kani::any();
    if which == 3 {
        let r = enc.encode(&mut NullSink, TerminalCommand::DeviceAttrs);
        assert!(r.is_ok());
        unsafe { assert!(NF == 1 && NA == 0 && OTHERS == 0 && str_eq(FMTS[0], "\x1b[c")); }
        std::mem::forget(r);
    } else {
        let name = match which { 0 => TerminalColor::Foreground, 1 => TerminalColor::Background, _ => TerminalColor::Palette(index) };
        let r = enc.encode(&mut NullSink, TerminalCommand::Color { name, color: None });
        assert!(r.is_ok());
        unsafe {
            assert!(NF == 4 && OTHERS == 0);
            assert!(str_eq(FMTS[0], "\x1b]") && str_eq(FMTS[2], "?") && str_eq(FMTS[3], "\x1b\\"));
            match which {
                0 => assert!(str_eq(FMTS[1], "10;") && NA == 0),
                1 => assert!(str_eq(FMTS[1], "11;") && NA == 0),
                _ => assert!(str_eq(FMTS[1], "4;{};") && NA == 1 && ARGS[0] == index as i128),
            }
        }
        std::mem::forget(r);
    }
    kani::cover!(which == 2);
    std::mem::forget(enc);
}

//# kind=bounded tier=quick props=C05 bound="one fixed two-letter title" fns=TTYEncoder::encode | Title(t) is one OSC 0 string: `ESC ] 0 ;` + the title + ST, a single formatted write with the title as its only argument
#[kani::proof]
#[kani::unwind(12)]
fn c05_fmt_title() {
    use kfmt_rec::*;
    unsafe { REAL = false; }
    let mut enc = TTYEncoder::new(caps());
    let r = enc.encode(&mut NullSink, TerminalCommand::Title(String::from("ab")));
    assert!(r.is_ok());
    unsafe { assert!(NF == 1 && NA == 0 && OTHERS == 1 && str_eq(FMTS[0], "\x1b]0;{}\x1b\\")); }
    kani::cover!(true);
    std::mem::forget(r);
    std::mem::forget(enc);
}

//# kind=bounded tier=quick props=C05 bound="one capability with a two-letter name (any two bytes)" fns=TTYEncoder::encode | Termcap([name]) is XTGETTCAP: `ESC P + q`, then every byte of the name as a lower-case hexadecimal number in order, then ST
#[kani::proof]
#[kani::unwind(12)]
fn c05_fmt_termcap() {
    use kfmt_rec::*;
    unsafe { REAL = false; }
    let mut enc = TTYEncoder::new(caps());
    let (a, b): (u8, u8) = (kani::any(), kani::any());
    kani::assume(a >= 0x30 && a < 0x7f && b >= 0x30 && b < 0x7f);
    let mut name = String::new();
    name.push(a as char);
    name.push(b as char);
    let r = enc.encode(&mut NullSink, TerminalCommand::Termcap(vec![name]));
    assert!(r.is_ok());
    unsafe {
        assert!(NF == 4 && NA == 2 && OTHERS == 0);
        assert!(str_eq(FMTS[0], "\x1bP+q") && str_eq(FMTS[1], "{:x}") && str_eq(FMTS[2], "{:x}") && str_eq(FMTS[3], "\x1b\\"));
        assert!(ARGS[0] == a as i128 && ARGS[1] == b as i128);
    }
    kani::cover!(a != b);
    std::mem::forget(r);
    std::mem::forget(enc);
}

// ---------------------------------------------------------------- C20: the 256-colour index that is emitted
// LinColor::distance (sqrt over SIMD lanes in the rasterize crate) is replaced by a recorder that answers with free values:
// which of the two candidates is closer is decided by the caller of this stub, the harness checks what is done with the answer.
static mut DN: usize = 0;
static mut DOTHER: [[f32; 3]; 2] = [[0.0; 3]; 2];
static mut DANS: [f32; 2] = [0.0; 2];
fn stub_distance(this: LinColor, other: LinColor) -> f32 {
    unsafe {
        let [r, g, b, _]: [f32; 4] = other.into();
        let k = DN;
        if k < 2 { DOTHER[k] = [r, g, b]; }
        DN += 1;
        if k < 2 { DANS[k] } else { 0.0 }
    }
}

//# kind=complete tier=thorough props=C20 fns=color_sgr_encode,nearest | 256-colour depth (foreground role; the role only selects the 38/48/58 prefix, see c05_face_colour_roles): the index emitted after `38;5` is the xterm index of one of two candidates - cube entry 16 + 36 r + 6 g + b for the per-channel nearest cube levels, or grey-ramp entry 232 + k for the level nearest to the mean of the channels - namely the grey one exactly when the colour metric reports it strictly closer; the metric is asked about exactly these two palette colours (per-channel arg-min is proved by c20_nearest_*, table values by c20_tables_linear_light)
#[kani::proof]
#[kani::unwind(12)]
#[kani::stub(rasterize::LinColor::distance, stub_distance)]
fn c20_eightbit_index() {
    use kfmt_rec::*;
    unsafe { REAL = false; }
    let (r, g, b): (f32, f32, f32) = (kani::any(), kani::any(), kani::any());
    kani::assume(r >= 0.0 && r <= 1.0 && g >= 0.0 && g <= 1.0 && b >= 0.0 && b <= 1.0);
    let (d_grey, d_cube): (f32, f32) = (kani::any(), kani::any());
    kani::assume(!d_grey.is_nan() && !d_cube.is_nan());
    unsafe { DANS = [d_grey, d_cube]; }
    let mut chunks = Chunks::default();
    let res = color_sgr_encode(&mut chunks, LinColor::new(r, g, b, 1.0), ColorDepth::EightBit, SGRColorType::Foreground);
    assert!(res.is_ok());
    let (cr, cg, cb) = (nearest(r, CUBE), nearest(g, CUBE), nearest(b, CUBE));
    let k = nearest((r + g + b) / 3.0, GREYS);
    unsafe {
        assert!(DN == 2);
        assert!(DOTHER[0][0] == GREYS[k] && DOTHER[0][1] == GREYS[k] && DOTHER[0][2] == GREYS[k]);
        assert!(DOTHER[1][0] == CUBE[cr] && DOTHER[1][1] == CUBE[cg] && DOTHER[1][2] == CUBE[cb]);
        assert!(NF == 1 && NA == 1 && OTHERS == 0 && str_eq(FMTS[0], "{}"));
        let want = if d_grey < d_cube { 232 + k } else { 16 + 36 * cr + 6 * cg + cb };
        assert!(ARGS[0] == want as i128);
        assert!(ARGS[0] >= 16 && ARGS[0] <= 255);
    }
    kani::cover!(d_grey < d_cube);
    kani::cover!(cr == 1 && cg == 2 && cb == 3 && d_grey > d_cube);
    std::mem::forget(res);
    std::mem::forget(chunks);
}

// modular variant: `nearest` by a recording stub that answers with any index of the table it is given (its arg-min contract is
// proved by c20_nearest_cube / c20_nearest_greys); the harness checks which queries are made and what is done with the answers
static mut NQ: usize = 0;
static mut QV: [f32; 4] = [0.0; 4];
static mut QLEN: [usize; 4] = [0; 4];
static mut QANS: [usize; 4] = [0; 4];
fn stub_nearest(v: f32, vs: &[f32]) -> usize {
    unsafe {
        let k = NQ;
        NQ += 1;
        if k < 4 { QV[k] = v; QLEN[k] = vs.len(); QANS[k] } else { 0 }
    }
}

//# kind=complete tier=quick props=C20 fns=color_sgr_encode | 256-colour depth, modular in `nearest`: the three channels are looked up in the 6-level cube table and the mean (r + g + b) / 3 in the 24-level grey table; the index emitted is 232 + k for the grey answer k when the metric reports the grey candidate strictly closer and 16 + 36 r + 6 g + b for the cube answers otherwise, for every role (38 / 48 / 58 prefix followed by 5)
#[kani::proof]
#[kani::unwind(12)]
#[kani::stub(rasterize::LinColor::distance, stub_distance)]
#[kani::stub(nearest, stub_nearest)]
fn c20_eightbit_index_modular() {
    use kfmt_rec::*;
    unsafe { REAL = false; }
    let (r, g, b): (f32, f32, f32) = (kani::any(), kani::any(), kani::any());
    kani::assume(r >= 0.0 && r <= 1.0 && g >= 0.0 && g <= 1.0 && b >= 0.0 && b <= 1.0);
    let (d_grey, d_cube): (f32, f32) = (kani::any(), kani::any());
    kani::assume(!d_grey.is_nan() && !d_cube.is_nan());
    let ans: [usize; 4] = kani::any();
    kani::assume(ans[0] < 6 && ans[1] < 6 && ans[2] < 6 && ans[3] < 24);
    unsafe { DANS = [d_grey, d_cube]; QANS = ans; }
    let role: u8 = kani::any();
    kani::assume(role < 3);
    let mut chunks = Chunks::default();
    let res = color_sgr_encode(&mut chunks, LinColor::new(r, g, b, 1.0), ColorDepth::EightBit,
        match role { 0 => SGRColorType::Foreground, 1 => SGRColorType::Background, _ => SGRColorType::Underline });
    assert!(res.is_ok());
    unsafe {
        assert!(NQ == 4 && QLEN[0] == 6 && QLEN[1] == 6 && QLEN[2] == 6 && QLEN[3] == 24);
        assert!(QV[0] == r && QV[1] == g && QV[2] == b);
        // the mean, up to rounding of a different but equivalent formula
        let mean = (r + g + b) / 3.0;
        assert!(QV[3] - mean <= 1e-6 && mean - QV[3] <= 1e-6);
        assert!(DN == 2);
        assert!(DOTHER[0][0] == GREYS[ans[3]] && DOTHER[0][1] == GREYS[ans[3]] && DOTHER[0][2] == GREYS[ans[3]]);
        assert!(DOTHER[1][0] == CUBE[ans[0]] && DOTHER[1][1] == CUBE[ans[1]] && DOTHER[1][2] == CUBE[ans[2]]);
        assert!(NF == 1 && NA == 1 && OTHERS == 0 && str_eq(FMTS[0], "{}"));
        let want = if d_grey < d_cube { 232 + ans[3] } else { 16 + 36 * ans[0] + 6 * ans[1] + ans[2] };
        assert!(ARGS[0] == want as i128);
    }
    kani::cover!(d_grey < d_cube && role == 2);
    kani::cover!(ans[0] == 1 && ans[1] == 2 && ans[2] == 3 && d_grey > d_cube);
    std::mem::forget(res);
    std::mem::forget(chunks);
}

//# kind=complete tier=quick props=C20,C05 fns=color_sgr_encode | true-colour depth: the colour is transmitted unchanged - after the role's 38 / 48 / 58 and the selector 2, exactly the three channel values r, g, b of the colour, in that order, for every opaque colour and every role
#[kani::proof]
#[kani::unwind(12)]
fn c20_truecolor_unchanged() {
    use kfmt_rec::*;
    unsafe { REAL = false; }
    let (r, g, b): (u8, u8, u8) = (kani::any(), kani::any(), kani::any());
    let role: u8 = kani::any();
    kani::assume(role < 3);
    let mut chunks = Chunks::default();
    let res = color_sgr_encode(&mut chunks, crate::RGBA::new(r, g, b, 255), ColorDepth::TrueColor,
        match role { 0 => SGRColorType::Foreground, 1 => SGRColorType::Background, _ => SGRColorType::Underline });
    assert!(res.is_ok());
    unsafe {
        assert!(NF == 3 && NA == 3 && OTHERS == 0);
        assert!(str_eq(FMTS[0], "{}") && str_eq(FMTS[1], "{}") && str_eq(FMTS[2], "{}"));
        assert!(ARGS[0] == r as i128 && ARGS[1] == g as i128 && ARGS[2] == b as i128);
    }
    kani::cover!(r != g && g != b);
    std::mem::forget(res);
    std::mem::forget(chunks);
}

//# kind=complete tier=quick props=C20,C05 fns=color_sgr_encode | grey-only depth, modular in `nearest`: one value (Color::luma of the colour; that it is the Rec. 709 luma is not decided - comparing two f32 evaluations of it did not finish) is looked up once in a 4-level table and level k is emitted as the SGR colour 30, 90, 37, 97 (black, bright black, white, bright white - increasing brightness) for a foreground, the same + 10 for a background, and nothing at all for an underline colour, which that depth cannot express
#[kani::proof]
#[kani::unwind(12)]
#[kani::stub(nearest, stub_nearest)]
fn c20_gray_index_modular() {
    use kfmt_rec::*;
    unsafe { REAL = false; }
    let (r, g, b): (u8, u8, u8) = (kani::any(), kani::any(), kani::any());
    let k: usize = kani::any();
    kani::assume(k < 4);
    unsafe { QANS = [k, 0, 0, 0]; }
    let role: u8 = kani::any();
    kani::assume(role < 3);
    let mut chunks = Chunks::default();
    let res = color_sgr_encode(&mut chunks, crate::RGBA::new(r, g, b, 255), ColorDepth::Gray,
        match role { 0 => SGRColorType::Foreground, 1 => SGRColorType::Background, _ => SGRColorType::Underline });
    assert!(res.is_ok());
    unsafe {
        assert!(NQ == 1 && QLEN[0] == 4);
        if role == 2 { assert!(NF == 0 && NA == 0); } else {
            let base: i128 = match k { 0 => 30, 1 => 90, 2 => 37, _ => 97 };
            assert!(NF == 1 && NA == 1 && OTHERS == 0 && str_eq(FMTS[0], "{}"));
            assert!(ARGS[0] == base + if role == 1 { 10 } else { 0 });
        }
    }
    kani::cover!(role == 1 && k == 3);
    std::mem::forget(res);
    std::mem::forget(chunks);
}
