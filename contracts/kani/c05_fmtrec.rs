//@ target: src/encoder.rs
//@ record-fmt src/encoder.rs
//@ separate

use crate::Position;

// Formatted output under K2: every write!(dst, "literal", args..) of encoder.rs records its format literal and its integer
// arguments (engine normalisation K2); the real write is switched off, so the record stands for the bytes core::fmt would produce
// (trusted: core::fmt renders `{}` of an integer as its decimal digits and copies the literal parts).
struct NullSink;
impl Write for NullSink {
    fn write(&mut self, buf: &[u8]) -> io::Result<usize> { Ok(buf.len()) }
    fn flush(&mut self) -> io::Result<()> { Ok(()) }
}
fn str_eq(a: &str, b: &str) -> bool {
    let (a, b) = (a.as_bytes(), b.as_bytes());
    if a.len() != b.len() { return false; }
    let mut i = 0;
    while i < a.len() { if a[i] != b[i] { return false; } i += 1; }
    true
}
fn caps() -> TerminalCaps { TerminalCaps { depth: ColorDepth::TrueColor, glyphs: kani::any(), kitty_keyboard: kani::any() } }

//# kind=complete tier=quick props=C05 fns=TTYEncoder::encode | CursorTo(row, col) is CUP with the 1-based row first and the 1-based column second (`ESC [ row+1 ; col+1 H`, saturating at usize::MAX), for every position
#[kani::proof]
#[kani::unwind(12)]
fn c05_fmt_cursor_to() {
    use kfmt_rec::*;
    unsafe { REAL = false; }
    let mut enc = TTYEncoder::new(caps());
    let pos = Position { row: kani::any(), col: kani::any() };
    let r = enc.encode(&mut NullSink, TerminalCommand::CursorTo(pos));
    assert!(r.is_ok());
    unsafe {
        assert!(NF == 1 && str_eq(FMTS[0], "\x1b[{};{}H"));
        assert!(NA == 2 && OTHERS == 0);
        assert!(ARGS[0] == pos.row.saturating_add(1) as i128 && ARGS[1] == pos.col.saturating_add(1) as i128);
    }
    kani::cover!(pos.row != pos.col);
    std::mem::forget(r);
    std::mem::forget(enc);
}

fn any_mode() -> (DecMode, i128) {
    let k: u8 = kani::any();
    kani::assume(k < 9);
    // DEC private mode numbers (xterm ctlseqs / kitty): the expected values come from the standard, not from the enum
    match k {
        0 => (DecMode::VisibleCursor, 25), 1 => (DecMode::AutoWrap, 7), 2 => (DecMode::SixelScrolling, 80), 3 => (DecMode::MouseReport, 1000),
        4 => (DecMode::MouseMotions, 1003), 5 => (DecMode::MouseSGR, 1006), 6 => (DecMode::AltScreen, 1049), 7 => (DecMode::SynchronizedOutput, 2026),
        _ => (DecMode::BracketedPaste, 2004),
    }
}

//# kind=complete tier=quick props=C05 fns=TTYEncoder::encode | DecModeGet(mode) is DECRQM for a DEC private mode, `ESC [ ? <mode number> $ p`, with the xterm number of that mode, for every mode
#[kani::proof]
#[kani::unwind(12)]
fn c05_fmt_dec_mode_get() {
    use kfmt_rec::*;
    unsafe { REAL = false; }
    let mut enc = TTYEncoder::new(caps());
    let (mode, number) = any_mode();
    let r = enc.encode(&mut NullSink, TerminalCommand::DecModeGet(mode));
    assert!(r.is_ok());
    unsafe {
        assert!(NF == 1 && str_eq(FMTS[0], "\x1b[?{}$p"));
        assert!(NA == 1 && OTHERS == 0 && ARGS[0] == number);
    }
    kani::cover!(number == 2026);
    std::mem::forget(r);
    std::mem::forget(enc);
}

//# kind=complete tier=quick props=C05 fns=TTYEncoder::encode | DecModeSet is DECSET / DECRST `ESC [ ? <mode number> h|l` with the xterm number of the mode and `h` exactly when enabling (terminals without the kitty keyboard protocol: nothing else is emitted), for every mode
#[kani::proof]
#[kani::unwind(12)]
fn c05_fmt_dec_mode_set() {
    use kfmt_rec::*;
    unsafe { REAL = false; }
    let mut enc = TTYEncoder::new(TerminalCaps { depth: ColorDepth::TrueColor, glyphs: kani::any(), kitty_keyboard: false });
    let (mode, number) = any_mode();
    let enable: bool = kani::any();
    let r = enc.encode(&mut NullSink, TerminalCommand::DecModeSet { enable, mode });
    assert!(r.is_ok());
    unsafe {
        assert!(NF == 1 && str_eq(FMTS[0], "\x1b[?{}{}"));
        assert!(NA == 2 && OTHERS == 0 && ARGS[0] == number);
        assert!(ARGS[1] == ((1 << 8) | (if enable { b'h' } else { b'l' }) as i128));
    }
    kani::cover!(enable);
    std::mem::forget(r);
    std::mem::forget(enc);
}

//# kind=complete tier=quick props=C05 fns=TTYEncoder::encode | CursorMove{row, col} is CUF/CUB for the column (`C` right for positive, `D` left for negative) followed by CUD/CUU for the row (`B` down for positive, `A` up for negative), each with the magnitude of the move (i32::MIN included) and omitted for zero
#[kani::proof]
#[kani::unwind(12)]
fn c05_fmt_cursor_move() {
    use kfmt_rec::*;
    unsafe { REAL = false; }
    let mut enc = TTYEncoder::new(caps());
    let (row, col): (i32, i32) = (kani::any(), kani::any());
    let r = enc.encode(&mut NullSink, TerminalCommand::CursorMove { row, col });
    assert!(r.is_ok());
    unsafe {
        let mut k = 0;
        if col != 0 {
            assert!(str_eq(FMTS[k], if col > 0 { "\x1b[{}C" } else { "\x1b[{}D" }));
            assert!(ARGS[k] == (col as i128).abs());
            k += 1;
        }
        if row != 0 {
            assert!(str_eq(FMTS[k], if row > 0 { "\x1b[{}B" } else { "\x1b[{}A" }));
            assert!(ARGS[k] == (row as i128).abs());
            k += 1;
        }
        assert!(NF == k && NA == k && OTHERS == 0);
    }
    kani::cover!(row == i32::MIN && col > 0);
    std::mem::forget(r);
    std::mem::forget(enc);
}

//# kind=complete tier=quick props=C05 fns=TTYEncoder::encode | Scroll(n) is SU `ESC [ n S` for a positive count (scroll up), SD `ESC [ |n| T` for a negative one (i32::MIN included), nothing for zero; EraseChars(n) is ECH `ESC [ n X`
#[kani::proof]
#[kani::unwind(12)]
fn c05_fmt_scroll_erase() {
    use kfmt_rec::*;
    unsafe { REAL = false; }
    let mut enc = TTYEncoder::new(caps());
    if kani::any() {
        let n: i32 = kani::any();
        let r = enc.encode(&mut NullSink, TerminalCommand::Scroll(n));
        assert!(r.is_ok());
        unsafe {
            if n == 0 { assert!(NF == 0 && NA == 0); } else {
                assert!(NF == 1 && NA == 1 && OTHERS == 0);
                assert!(str_eq(FMTS[0], if n > 0 { "\x1b[{}S" } else { "\x1b[{}T" }));
                assert!(ARGS[0] == (n as i128).abs());
            }
        }
        std::mem::forget(r);
    } else {
        let n: usize = kani::any();
        let r = enc.encode(&mut NullSink, TerminalCommand::EraseChars(n));
        assert!(r.is_ok());
        unsafe { assert!(NF == 1 && NA == 1 && OTHERS == 0 && str_eq(FMTS[0], "\x1b[{}X") && ARGS[0] == n as i128); }
        std::mem::forget(r);
    }
    kani::cover!(true);
    std::mem::forget(enc);
}

//# kind=complete tier=quick props=C05 fns=TTYEncoder::encode | ScrollRegion{start, end} is DECSTBM `ESC [ start+1 ; end+1 r` (1-based, top first) for a non-empty region and the reset form `ESC [ r` otherwise; a palette colour query is OSC 4 with the index; KeyboardLevel(n) is the kitty `ESC [ = n u` on terminals with that protocol and nothing otherwise
#[kani::proof]
#[kani::unwind(12)]
fn c05_fmt_region_palette_level() {
    use kfmt_rec::*;
    unsafe { REAL = false; }
    let c = caps();
    let kitty = c.kitty_keyboard;
    let mut enc = TTYEncoder::new(c);
    let which: u8 = kani::any();
    kani::assume(which < 2);
    if which == 0 {
        let (start, end): (usize, usize) = (kani::any(), kani::any());
        let r = enc.encode(&mut NullSink, TerminalCommand::ScrollRegion { start, end });
        assert!(r.is_ok());
        unsafe {
            if end > start {
                assert!(NF == 1 && NA == 2 && OTHERS == 0 && str_eq(FMTS[0], "\x1b[{};{}r"));
                assert!(ARGS[0] == start as i128 + 1 && ARGS[1] == (end.saturating_add(1)) as i128);
            } else {
                assert!(NF == 1 && NA == 0 && str_eq(FMTS[0], "\x1b[r"));
            }
        }
        std::mem::forget(r);
    } else {
        let n: usize = kani::any();
        let r = enc.encode(&mut NullSink, TerminalCommand::KeyboardLevel(n));
        assert!(r.is_ok());
        unsafe {
            if kitty { assert!(NF == 1 && NA == 1 && OTHERS == 0 && str_eq(FMTS[0], "\x1b[={}u") && ARGS[0] == n as i128); }
            else { assert!(NF == 0 && NA == 0); }
        }
        std::mem::forget(r);
    }
    kani::cover!(which == 1 && kitty);
    std::mem::forget(enc);
}
