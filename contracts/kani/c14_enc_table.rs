//@ target: src/encoder.rs

fn alpha(i: u8) -> u8 {
    if i < 26 { 65 + i } else if i < 52 { 97 + (i - 26) } else if i < 62 { 48 + (i - 52) } else if i == 62 { 43 } else { 47 }
}

//# kind=complete tier=quick props=C14 fns=BASE64_ENCODE | BASE64_ENCODE has 64 entries equal to the RFC 4648 alphabet (justifies the lookup specification `b64_enc_lookup` assumed by the Verus unit base64enc)
#[kani::proof]
#[kani::unwind(2)]
fn c14_encode_table() {
    let i: u8 = kani::any();
    kani::assume(i < 64);
    assert!(BASE64_ENCODE.len() == 64);
    assert!(BASE64_ENCODE[i as usize] == alpha(i));
    kani::cover!(i == 63);
}
