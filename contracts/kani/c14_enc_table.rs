//@ target: src/encoder.rs

fn alpha(i: u8) -> u8 {
    if i < 26 { 65 + i } else if i < 52 { 97 + (i - 26) } else if i < 62 { 48 + (i - 52) } else if i == 62 { 43 } else { 47 }
}

//# kind=complete tier=quick props=C14 fns=BASE64_ENCODE | BASE64_ENCODE has 64 entries equal to the RFC 4648 alphabet (justifies the lookup specification `b64_enc_lookup` assumed by the Verus unit base64enc)
#[kani::proof]
#[kani::unwind(2)]
fn c14_encode_table() {
    let i: u8 = kani::any();
    kani::assume(i < 64);
    assert!(BASE64_ENCODE.len() == 64);
    assert!(BASE64_ENCODE[i as usize] == alpha(i));
    kani::cover!(i == 63);
}

// RFC 4648 reference for up to 4 input bytes (bounded twin of the Verus unit base64enc; counterexample provider)
fn ref_b64(d: &[u8; 4], n: usize, out: &mut [u8; 8]) -> usize {
    let a = |i: u8| alpha(i);
    let mut k = 0;
    let mut i = 0;
    while i + 3 <= n {
        out[k] = a(d[i] >> 2); out[k + 1] = a(((d[i] & 3) << 4) | (d[i + 1] >> 4));
        out[k + 2] = a(((d[i + 1] & 15) << 2) | (d[i + 2] >> 6)); out[k + 3] = a(d[i + 2] & 63);
        k += 4; i += 3;
    }
    let r = n - i;
    if r == 1 { out[k] = a(d[i] >> 2); out[k + 1] = a((d[i] & 3) << 4); out[k + 2] = b'='; out[k + 3] = b'='; k += 4; }
    if r == 2 { out[k] = a(d[i] >> 2); out[k + 1] = a(((d[i] & 3) << 4) | (d[i + 1] >> 4)); out[k + 2] = a((d[i + 1] & 15) << 2); out[k + 3] = b'='; k += 4; }
    k
}

// writing d[..k] then d[k..n] and finishing yields exactly the RFC 4648 text of d[..n]
fn two_writes_case(n: usize, k: usize) {
    let d: [u8; 4] = kani::any();
    let mut enc = Base64Encoder::new(Vec::with_capacity(16));
    let r1 = enc.write(&d[..k]);
    let r2 = enc.write(&d[k..n]);
    assert!(r1.is_ok() && r2.is_ok());
    let res = enc.finish();
    let mut want = [0u8; 8];
    let wl = ref_b64(&d, n, &mut want);
    match &res {
        Ok(v) => {
            assert!(v.len() == wl);
            let mut i = 0;
            while i < wl { assert!(v[i] == want[i]); i += 1; }
        }
        Err(_) => assert!(false),
    }
    kani::cover!(true);
    std::mem::forget(res); std::mem::forget(r1); std::mem::forget(r2);
}

//# kind=bounded tier=quick props=C14 bound="0 input bytes (all values) written as 0 + 0 bytes" fns="<Base64Encoder<W> as Write>::write,Base64Encoder::finish" | writing d[..0] then d[0..0] and finishing yields exactly the RFC 4648 text of d[..0] (bounded twin of the Verus proof; counterexample provider)
#[kani::proof]
#[kani::unwind(10)]
fn c14_encoder_two_writes_0_0() { two_writes_case(0, 0) }

//# kind=bounded tier=quick props=C14 bound="1 input bytes (all values) written as 0 + 1 bytes" fns="<Base64Encoder<W> as Write>::write,Base64Encoder::finish" | writing d[..0] then d[0..1] and finishing yields exactly the RFC 4648 text of d[..1] (bounded twin of the Verus proof; counterexample provider)
#[kani::proof]
#[kani::unwind(10)]
fn c14_encoder_two_writes_1_0() { two_writes_case(1, 0) }

//# kind=bounded tier=quick props=C14 bound="1 input bytes (all values) written as 1 + 0 bytes" fns="<Base64Encoder<W> as Write>::write,Base64Encoder::finish" | writing d[..1] then d[1..1] and finishing yields exactly the RFC 4648 text of d[..1] (bounded twin of the Verus proof; counterexample provider)
#[kani::proof]
#[kani::unwind(10)]
fn c14_encoder_two_writes_1_1() { two_writes_case(1, 1) }

//# kind=bounded tier=quick props=C14 bound="2 input bytes (all values) written as 0 + 2 bytes" fns="<Base64Encoder<W> as Write>::write,Base64Encoder::finish" | writing d[..0] then d[0..2] and finishing yields exactly the RFC 4648 text of d[..2] (bounded twin of the Verus proof; counterexample provider)
#[kani::proof]
#[kani::unwind(10)]
fn c14_encoder_two_writes_2_0() { two_writes_case(2, 0) }

//# kind=bounded tier=quick props=C14 bound="2 input bytes (all values) written as 1 + 1 bytes" fns="<Base64Encoder<W> as Write>::write,Base64Encoder::finish" | writing d[..1] then d[1..2] and finishing yields exactly the RFC 4648 text of d[..2] (bounded twin of the Verus proof; counterexample provider)
#[kani::proof]
#[kani::unwind(10)]
fn c14_encoder_two_writes_2_1() { two_writes_case(2, 1) }

//# kind=bounded tier=quick props=C14 bound="2 input bytes (all values) written as 2 + 0 bytes" fns="<Base64Encoder<W> as Write>::write,Base64Encoder::finish" | writing d[..2] then d[2..2] and finishing yields exactly the RFC 4648 text of d[..2] (bounded twin of the Verus proof; counterexample provider)
#[kani::proof]
#[kani::unwind(10)]
fn c14_encoder_two_writes_2_2() { two_writes_case(2, 2) }

//# kind=bounded tier=quick props=C14 bound="3 input bytes (all values) written as 0 + 3 bytes" fns="<Base64Encoder<W> as Write>::write,Base64Encoder::finish" | writing d[..0] then d[0..3] and finishing yields exactly the RFC 4648 text of d[..3] (bounded twin of the Verus proof; counterexample provider)
#[kani::proof]
#[kani::unwind(10)]
fn c14_encoder_two_writes_3_0() { two_writes_case(3, 0) }

//# kind=bounded tier=quick props=C14 bound="3 input bytes (all values) written as 1 + 2 bytes" fns="<Base64Encoder<W> as Write>::write,Base64Encoder::finish" | writing d[..1] then d[1..3] and finishing yields exactly the RFC 4648 text of d[..3] (bounded twin of the Verus proof; counterexample provider)
#[kani::proof]
#[kani::unwind(10)]
fn c14_encoder_two_writes_3_1() { two_writes_case(3, 1) }

//# kind=bounded tier=quick props=C14 bound="3 input bytes (all values) written as 2 + 1 bytes" fns="<Base64Encoder<W> as Write>::write,Base64Encoder::finish" | writing d[..2] then d[2..3] and finishing yields exactly the RFC 4648 text of d[..3] (bounded twin of the Verus proof; counterexample provider)
#[kani::proof]
#[kani::unwind(10)]
fn c14_encoder_two_writes_3_2() { two_writes_case(3, 2) }

//# kind=bounded tier=quick props=C14 bound="3 input bytes (all values) written as 3 + 0 bytes" fns="<Base64Encoder<W> as Write>::write,Base64Encoder::finish" | writing d[..3] then d[3..3] and finishing yields exactly the RFC 4648 text of d[..3] (bounded twin of the Verus proof; counterexample provider)
#[kani::proof]
#[kani::unwind(10)]
fn c14_encoder_two_writes_3_3() { two_writes_case(3, 3) }

//# kind=bounded tier=quick props=C14 bound="4 input bytes (all values) written as 0 + 4 bytes" fns="<Base64Encoder<W> as Write>::write,Base64Encoder::finish" | writing d[..0] then d[0..4] and finishing yields exactly the RFC 4648 text of d[..4] (bounded twin of the Verus proof; counterexample provider)
#[kani::proof]
#[kani::unwind(10)]
fn c14_encoder_two_writes_4_0() { two_writes_case(4, 0) }

//# kind=bounded tier=quick props=C14 bound="4 input bytes (all values) written as 1 + 3 bytes" fns="<Base64Encoder<W> as Write>::write,Base64Encoder::finish" | writing d[..1] then d[1..4] and finishing yields exactly the RFC 4648 text of d[..4] (bounded twin of the Verus proof; counterexample provider)
#[kani::proof]
#[kani::unwind(10)]
fn c14_encoder_two_writes_4_1() { two_writes_case(4, 1) }

//# kind=bounded tier=quick props=C14 bound="4 input bytes (all values) written as 2 + 2 bytes" fns="<Base64Encoder<W> as Write>::write,Base64Encoder::finish" | writing d[..2] then d[2..4] and finishing yields exactly the RFC 4648 text of d[..4] (bounded twin of the Verus proof; counterexample provider)
#[kani::proof]
#[kani::unwind(10)]
fn c14_encoder_two_writes_4_2() { two_writes_case(4, 2) }

//# kind=bounded tier=quick props=C14 bound="4 input bytes (all values) written as 3 + 1 bytes" fns="<Base64Encoder<W> as Write>::write,Base64Encoder::finish" | writing d[..3] then d[3..4] and finishing yields exactly the RFC 4648 text of d[..4] (bounded twin of the Verus proof; counterexample provider)
#[kani::proof]
#[kani::unwind(10)]
fn c14_encoder_two_writes_4_3() { two_writes_case(4, 3) }

//# kind=bounded tier=quick props=C14 bound="4 input bytes (all values) written as 4 + 0 bytes" fns="<Base64Encoder<W> as Write>::write,Base64Encoder::finish" | writing d[..4] then d[4..4] and finishing yields exactly the RFC 4648 text of d[..4] (bounded twin of the Verus proof; counterexample provider)
#[kani::proof]
#[kani::unwind(10)]
fn c14_encoder_two_writes_4_4() { two_writes_case(4, 4) }
