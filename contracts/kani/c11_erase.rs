//@ target: src/image.rs
//@ strip-tracing src/image.rs
//@ record-fmt src/image.rs
//@ separate
// (own scratch copy: kitty_placement_id carries Kani contract attributes in group c11_kitty, and a contracted function cannot also be stubbed)

// ---- KittyImageHandler::erase: which ids it addresses (the formatted command is observed as its format literal and integer arguments, engine
// normalisation K2 - under it the arguments of write! are evaluated twice, hence two calls of each id function; the two id functions
// are replaced by recorders)
static mut P_CALLS: usize = 0;
static mut P_POS: [(usize, usize); 2] = [(0, 0); 2];
static mut I_CALLS: usize = 0;
fn stub_placement_id(pos: Position) -> u64 { unsafe { if P_CALLS < 2 { P_POS[P_CALLS] = (pos.row, pos.col); } P_CALLS += 1; } 42 }
fn stub_image_id(_img: &Image) -> u64 { unsafe { I_CALLS += 1; } 7 }
// the (never used) image cache is built without asking the OS for hashing keys (a syscall Kani does not model)
fn fixed_random_state() -> std::collections::hash_map::RandomState { unsafe { std::mem::transmute::<[u64; 2], std::collections::hash_map::RandomState>([1, 2]) } }
fn kstr_eq(a: &str, b: &str) -> bool {
    let (a, b) = (a.as_bytes(), b.as_bytes());
    if a.len() != b.len() { return false; }
    let mut i = 0;
    while i < a.len() { if a[i] != b[i] { return false; } i += 1; }
    true
}
struct CountSink { literal: usize, fmts: usize }
impl Write for CountSink {
    fn write(&mut self, buf: &[u8]) -> std::io::Result<usize> { self.literal += buf.len(); Ok(buf.len()) }
    fn flush(&mut self) -> std::io::Result<()> { Ok(()) }
    fn write_fmt(&mut self, _args: std::fmt::Arguments<'_>) -> std::io::Result<()> { self.fmts += 1; Ok(()) }
}

//# kind=complete tier=quick props=C11 fns="KittyImageHandler::erase" | erase(img, Some(pos)) emits one command built from the image id of THAT image and the placement id of exactly THAT position (the function draw uses for the same position - so it addresses the placement drawing there created); erase(img, None) addresses the image only; for every position
#[kani::proof]
#[kani::unwind(30)]
#[kani::stub(kitty_placement_id, stub_placement_id)]
#[kani::stub(kitty_image_id, stub_image_id)]
#[kani::stub(std::collections::hash_map::RandomState::new, fixed_random_state)]
fn c11_erase_addresses_position() {
    let px: [RGBA; 1] = [RGBA::new(1, 2, 3, 255)];
    let data: std::sync::Arc<[RGBA]> = std::sync::Arc::new(px);
    let img = Image::from_parts(data, Shape::from(Size::new(1, 1)));
    let mut h = KittyImageHandler { imgs: Default::default(), suppress: None };
    let mut out = CountSink { literal: 0, fmts: 0 };
    let pos = Position { row: kani::any(), col: kani::any() };
    let with_pos: bool = kani::any();
    let r = h.erase(&mut out, &img, if with_pos { Some(pos) } else { None });
    assert!(r.is_ok() && out.fmts == 1 && out.literal == 0);
    unsafe {
        use kfmt_rec::*;
        assert!(I_CALLS == 2);
        if with_pos { assert!(P_CALLS == 2 && P_POS[0] == (pos.row, pos.col) && P_POS[1] == (pos.row, pos.col)); } else { assert!(P_CALLS == 0); }
        // the command itself: kitty graphics `a=d` (delete) with `d=i` (by image id, keeping the data), the image id and - when
        // a position is given - the placement id, so that only that placement is addressed
        assert!(NF == 1 && OTHERS == 0);
        if with_pos {
            assert!(kstr_eq(FMTS[0], "\x1b_Ga=d,d=i,i={},p={}\x1b\\") && NA == 2 && ARGS[0] == 7 && ARGS[1] == 42);
        } else {
            assert!(kstr_eq(FMTS[0], "\x1b_Ga=d,d=i,i={}\x1b\\") && NA == 1 && ARGS[0] == 7);
        }
    }
    kani::cover!(with_pos);
    std::mem::forget(r); std::mem::forget(h); std::mem::forget(img);
}
