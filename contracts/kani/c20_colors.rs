//@ target: src/encoder.rs

fn not_nan() -> f32 { let v: f32 = kani::any(); kani::assume(!v.is_nan()); v }
fn dist(a: f32, b: f32) -> f32 { if a >= b { a - b } else { b - a } }

//# kind=complete tier=quick props=C20 fns=nearest,CUBE | nearest(v, CUBE) is an arg-min of |v - CUBE[j]| over the 6 cube levels for every non-NaN f32 (binary search bounded by the table); CUBE strictly increasing
#[kani::proof]
#[kani::unwind(8)]
fn c20_nearest_cube() {
    let v = not_nan();
    let i = nearest(v, CUBE);
    assert!(i < CUBE.len() && CUBE.len() == 6);
    let j: usize = kani::any(); // every table entry (symbolic index instead of a loop)
    kani::assume(j < 6);
    assert!(dist(v, CUBE[i]) <= dist(v, CUBE[j]));
    if j > 0 { assert!(CUBE[j - 1] < CUBE[j]); }
    kani::cover!(i == 3);
}

//# kind=complete tier=quick props=C20 fns=nearest,GREYS | nearest(v, GREYS) is an arg-min of |v - GREYS[j]| over the 24 grey levels for every non-NaN f32; GREYS strictly increasing
#[kani::proof]
#[kani::unwind(8)]
fn c20_nearest_greys() {
    let v = not_nan();
    let i = nearest(v, GREYS);
    assert!(i < GREYS.len() && GREYS.len() == 24);
    let j: usize = kani::any(); // every table entry (symbolic index instead of a loop)
    kani::assume(j < 24);
    assert!(dist(v, GREYS[i]) <= dist(v, GREYS[j]));
    if j > 0 { assert!(GREYS[j - 1] < GREYS[j]); }
    kani::cover!(i == 17);
}

//# kind=complete tier=quick props=C20 fns=nearest | grey depth: the level picked for a luminance is the nearest of [0, .33, .66, 1] and is monotone in the luminance (l1 <= l2 implies level(l1) <= level(l2)), for all non-NaN f32
#[kani::proof]
#[kani::unwind(7)]
fn c20_gray_levels_monotone() {
    let levels: [f32; 4] = [0.0, 0.33, 0.66, 1.0];
    let l1 = not_nan();
    let l2 = not_nan();
    let i1 = nearest(l1, &levels);
    let i2 = nearest(l2, &levels);
    assert!(i1 < 4 && i2 < 4);
    let j: usize = kani::any();
    kani::assume(j < 4);
    assert!(dist(l1, levels[i1]) <= dist(l1, levels[j]));
    if l1 <= l2 { assert!(i1 <= i2); }
    kani::cover!(i1 == 1 && i2 == 2);
}

// ---- the two hand-typed tables against the sRGB transfer function
// expected values: linear-light value of the xterm level v, lin(v) = (v/255)/12.92 if v/255 <= 0.04045 else ((v/255 + 0.055)/1.055)^2.4,
// evaluated in double precision when this file was written (powf is outside CBMC) and transcribed to 9 digits
const EXP_CUBE: [f32; 6] = [0.000000000, 0.114435374, 0.242281122, 0.428690497, 0.679542470, 1.000000000];
const EXP_GREYS: [f32; 24] = [0.002428216, 0.006048833, 0.011612245, 0.019382361, 0.029556834, 0.042311411, 0.057805430, 0.076185381, 0.097587347, 0.122138772, 0.149959790, 0.181164244, 0.215860500, 0.254152094, 0.296138271, 0.341914425, 0.391572478, 0.445201195, 0.502886458, 0.564711506, 0.630757136, 0.701101892, 0.775822218, 0.854992608];

//# kind=complete tier=quick props=C20 fns=CUBE,GREYS | every entry of CUBE / GREYS is the linear-light value of the xterm level it stands for (0,95,135,175,215,255 and 8+10k) to within 1e-6 - the tables are typed to six decimals
#[kani::proof]
#[kani::unwind(2)]
fn c20_tables_linear_light() {
    assert!(CUBE.len() == 6 && GREYS.len() == 24);
    let j: usize = kani::any();
    kani::assume(j < 6);
    assert!(dist(CUBE[j], EXP_CUBE[j]) <= 1e-6);
    let k: usize = kani::any();
    kani::assume(k < 24);
    assert!(dist(GREYS[k], EXP_GREYS[k]) <= 1e-6);
    kani::cover!(j == 5 && k == 23);
}
