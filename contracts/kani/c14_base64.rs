//@ target: src/decoder.rs

// RFC 4648 alphabet, written from the RFC (same definition as the Verus unit base64enc)
fn alpha(i: u8) -> u8 {
    if i < 26 { 65 + i } else if i < 52 { 97 + (i - 26) } else if i < 62 { 48 + (i - 52) } else if i == 62 { 43 } else { 47 }
}
fn enc3(a: u8, b: u8, c: u8) -> [u8; 4] {
    [alpha(a >> 2), alpha(((a & 3) << 4) | (b >> 4)), alpha(((b & 15) << 2) | (c >> 6)), alpha(c & 63)]
}
type Dec = Base64Decoder<&'static [u8]>;

//# kind=complete tier=quick props=C14 fns=BASE64_DECODE | BASE64_DECODE is the inverse of the RFC 4648 alphabet on all 64 values, and maps '=' to 0 (table constant, 64-entry walk)
#[kani::proof]
#[kani::unwind(2)]
fn c14_decode_table() {
    let i: u8 = kani::any();
    kani::assume(i < 64);
    assert!(BASE64_DECODE[alpha(i) as usize] == i);
    assert!(BASE64_DECODE[b'=' as usize] == 0);
    kani::cover!(i == 63);
}

// value table as specified in the Verus units (b64_dec_spec.inc): inverse alphabet, 0 for everything else
fn dec_val(c: u8) -> u8 {
    if c >= 65 && c <= 90 { c - 65 } else if c >= 97 && c <= 122 { c - 71 } else if c >= 48 && c <= 57 { c + 4 } else if c == 43 { 62 } else if c == 47 { 63 } else { 0 }
}

//# kind=complete tier=quick props=C14 fns=BASE64_DECODE | BASE64_DECODE[c] == dec_val(c) for all 256 byte values (discharges the specification of `b64_dec_lookup` assumed by the Verus unit base64dec)
#[kani::proof]
#[kani::unwind(2)]
fn c14_decode_table_full() {
    let c: u8 = kani::any();
    assert!(BASE64_DECODE[c as usize] == dec_val(c));
    kani::cover!(c == b'=');
}

//# kind=complete tier=quick props=C14 fns=Base64Decoder::decode_u8x4,Base64Decoder::decode_size | decode_u8x4(enc3(a,b,c)) == [a,b,c] for all 2^24 groups; padded quanta `xx==` / `xxx=` give size 1 / 2 and the right leading bytes; decode_size is 3 without padding
#[kani::proof]
#[kani::unwind(8)]
fn c14_quantum_roundtrip() {
    let a: u8 = kani::any();
    let b: u8 = kani::any();
    let c: u8 = kani::any();
    let q = enc3(a, b, c);
    assert!(Dec::decode_u8x4(q) == [a, b, c]);
    assert!(Dec::decode_size(q) == 3);
    // two input bytes: third index carries (b & 15) << 2, then '='
    let q2 = [q[0], q[1], alpha((b & 15) << 2), b'='];
    let d2 = Dec::decode_u8x4(q2);
    assert!(Dec::decode_size(q2) == 2 && d2[0] == a && d2[1] == b);
    // one input byte
    let q1 = [q[0], alpha((a & 3) << 4), b'=', b'='];
    let d1 = Dec::decode_u8x4(q1);
    assert!(Dec::decode_size(q1) == 1 && d1[0] == a);
    kani::cover!(a == 255 && b == 255 && c == 255);
}

//# kind=complete tier=quick props=C14 fns=Base64Decoder::decode_u8x4,Base64Decoder::decode_size | decode_u8x4 / decode_size never panic and decode_size is in 1..=3 for arbitrary bytes
#[kani::proof]
#[kani::unwind(8)]
fn c14_quantum_total() {
    let q: [u8; 4] = kani::any();
    let _ = Dec::decode_u8x4(q);
    let n = Dec::decode_size(q);
    assert!(n >= 1 && n <= 3);
    kani::cover!(n == 1);
}

// (a bounded CBMC twin of the decoder loop - one quantum through a 1..=4-bytes-per-read reader - did not finish in 10 min;
//  the streaming decoder is proved in the Verus unit base64dec for every read schedule instead)
