//@ target: src/decoder.rs

// RFC 4648 alphabet, written from the RFC (same definition as the Verus unit base64enc)
fn alpha(i: u8) -> u8 {
    if i < 26 { 65 + i } else if i < 52 { 97 + (i - 26) } else if i < 62 { 48 + (i - 52) } else if i == 62 { 43 } else { 47 }
}
fn enc3(a: u8, b: u8, c: u8) -> [u8; 4] {
    [alpha(a >> 2), alpha(((a & 3) << 4) | (b >> 4)), alpha(((b & 15) << 2) | (c >> 6)), alpha(c & 63)]
}
type Dec = Base64Decoder<&'static [u8]>;

//# kind=complete tier=quick props=C14 fns=BASE64_DECODE | BASE64_DECODE is the inverse of the RFC 4648 alphabet on all 64 values, and maps '=' to 0 (table constant, 64-entry walk)
#[kani::proof]
#[kani::unwind(2)]
fn c14_decode_table() {
    let i: u8 = kani::any();
    kani::assume(i < 64);
    assert!(BASE64_DECODE[alpha(i) as usize] == i);
    assert!(BASE64_DECODE[b'=' as usize] == 0);
    kani::cover!(i == 63);
}

//# kind=complete tier=quick props=C14 fns=Base64Decoder::decode_u8x4,Base64Decoder::decode_size | decode_u8x4(enc3(a,b,c)) == [a,b,c] for all 2^24 groups; padded quanta `xx==` / `xxx=` give size 1 / 2 and the right leading bytes; decode_size is 3 without padding
#[kani::proof]
#[kani::unwind(6)]
fn c14_quantum_roundtrip() {
    let a: u8 = kani::any();
    let b: u8 = kani::any();
    let c: u8 = kani::any();
    let q = enc3(a, b, c);
    assert!(Dec::decode_u8x4(q) == [a, b, c]);
    assert!(Dec::decode_size(q) == 3);
    // two input bytes: third index carries (b & 15) << 2, then '='
    let q2 = [q[0], q[1], alpha((b & 15) << 2), b'='];
    let d2 = Dec::decode_u8x4(q2);
    assert!(Dec::decode_size(q2) == 2 && d2[0] == a && d2[1] == b);
    // one input byte
    let q1 = [q[0], alpha((a & 3) << 4), b'=', b'='];
    let d1 = Dec::decode_u8x4(q1);
    assert!(Dec::decode_size(q1) == 1 && d1[0] == a);
    kani::cover!(a == 255 && b == 255 && c == 255);
}

//# kind=complete tier=quick props=C14 fns=Base64Decoder::decode_u8x4,Base64Decoder::decode_size | decode_u8x4 / decode_size never panic and decode_size is in 1..=3 for arbitrary bytes
#[kani::proof]
#[kani::unwind(2)]
fn c14_quantum_total() {
    let q: [u8; 4] = kani::any();
    let _ = Dec::decode_u8x4(q);
    let n = Dec::decode_size(q);
    assert!(n >= 1 && n <= 3);
    kani::cover!(n == 1);
}

// A reader that hands out at most `step` bytes per call (the io::Read contract allows any short read)
struct SlowReader { data: [u8; 8], len: usize, pos: usize, step: usize }
impl Read for SlowReader {
    fn read(&mut self, buf: &mut [u8]) -> std::io::Result<usize> {
        let mut n = 0;
        while n < buf.len() && n < self.step && self.pos < self.len {
            buf[n] = self.data[self.pos];
            self.pos += 1;
            n += 1;
        }
        Ok(n)
    }
}

//# kind=bounded tier=thorough props=C14 bound="one quantum (4 text bytes), reader hands out 1..=4 bytes per read call, destination buffer of 3" fns=Base64Decoder::read,Base64Decoder::buffer_fill | decoding a valid quantum through a reader that returns fewer bytes than asked (any step 1..=4) yields the original three bytes, not an error (bounded twin; counterexample provider)
#[kani::proof]
#[kani::unwind(7)]
fn c14_decoder_short_reads_bounded() {
    let a: u8 = kani::any();
    let b: u8 = kani::any();
    let c: u8 = kani::any();
    let q = enc3(a, b, c);
    let step: usize = kani::any();
    kani::assume(step >= 1 && step <= 4);
    let reader = SlowReader { data: [q[0], q[1], q[2], q[3], 0, 0, 0, 0], len: 4, pos: 0, step };
    let mut dec = Base64Decoder::new(reader);
    let mut out = [0u8; 3];
    let res = dec.read(&mut out);
    match &res {
        Ok(n) => assert!(*n == 3 && out[0] == a && out[1] == b && out[2] == c),
        Err(_) => assert!(false, "valid text reported as an error"),
    }
    std::mem::forget(res); // keep CBMC out of the drop glue of io::Error
    kani::cover!(step == 1);
}
