//@ target: src/render.rs

//# kind=complete tier=quick props=C09 fns="Cell::size" | a character cell is one row high and at most three columns wide (U+17D8 is the widest in the pinned unicode-width), for every char (unicode-width's tables) - the assumption `char_cell_small` of the Verus unit putcell; zero-width characters have width 0
#[kani::proof]
#[kani::unwind(4)]
fn c09_char_cell_size() {
    let c: char = kani::any();
    let cell = Cell::new_char(Face::default(), c);
    let ctx = ViewContext::dummy();
    let s = cell.size(&ctx);
    assert!(s.height == 1 && s.width <= 3);
    kani::cover!(s.width == 3);
    kani::cover!(s.width == 0);
    std::mem::forget(cell);
}

fn stub_fallback_str(_g: &crate::Glyph) -> &str { "a\u{1F973}" }   // a narrow letter and a double-width emoji

//# kind=bounded tier=quick props=C09 fns="Cell::size" bound="one glyph with the fixed fallback text `a` + U+1F973 on a terminal without glyph support" | the size measured for a glyph that will be written as its fallback characters is one row and the SUM of the display widths of those characters (1 + 2), i.e. what writing them one by one occupies
#[kani::proof]
#[kani::unwind(8)]
#[kani::stub(crate::Glyph::fallback_str, stub_fallback_str)]
fn c09_glyph_fallback_size() {
    let cell = Cell::new_glyph(Face::default(), crate::glyph::verif_kani_c09_fakeglyph::fake_glyph());
    let mut ctx = ViewContext::dummy();
    ctx.has_glyphs = false;
    let s = cell.size(&ctx);
    assert!(s.height == 1 && s.width == 3);
    kani::cover!(true);
    std::mem::forget(cell);
}
