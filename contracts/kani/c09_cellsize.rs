//@ target: src/render.rs

//# kind=complete tier=quick props=C09 fns="Cell::size" | a character cell is one row high and at most three columns wide (U+17D8 is the widest in the pinned unicode-width), for every char (unicode-width's tables) - the assumption `char_cell_small` of the Verus unit putcell; zero-width characters have width 0
#[kani::proof]
#[kani::unwind(4)]
fn c09_char_cell_size() {
    let c: char = kani::any();
    let cell = Cell::new_char(Face::default(), c);
    let ctx = ViewContext::dummy();
    let s = cell.size(&ctx);
    assert!(s.height == 1 && s.width <= 3);
    kani::cover!(s.width == 3);
    kani::cover!(s.width == 0);
    std::mem::forget(cell);
}
