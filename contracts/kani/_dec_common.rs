// ---------------------------------------------------------------------------------------------
// Modular stand-in for `number_decode`, justified by its Verus contract (unit `numdec`):
//   number_decode(d) == Some(min(dec(d), usize::MAX)) if d is all ASCII digits (Some(0) if empty), else None.
// Harness buffers carry ONE marker digit ('1'..'9') per numeric field; the stub maps marker k to the
// harness-chosen symbolic value VALS[k]. The payload decoder is thereby exercised for EVERY numeric value,
// and a value landing in the wrong field is observable because fields use distinct markers.
static mut VALS: [usize; 10] = [0; 10];
fn number_decode_stub(data: &[u8]) -> Option<usize> {
    if data.len() == 1 && data[0] == b'~' {
        return Some(1); // probe used by stub_active(): the real function rejects it
    }
    if data.len() == 0 {
        Some(0)
    } else if data.len() == 1 && data[0] >= b'0' && data[0] <= b'9' {
        Some(unsafe { VALS[(data[0] - b'0') as usize] })
    } else {
        // harness buffers never contain other digit strings; anything else is a non-number
        let mut i = 0;
        while i < data.len() {
            if !(data[i] >= b'0' && data[i] <= b'9') { return None; }
            i += 1;
        }
        Some(kani::any())
    }
}
// true under Kani (stub installed); false when a counterexample is replayed natively, where the REAL
// number_decode runs: the harness then feeds real decimal digit strings instead of marker digits.
fn stub_active() -> bool { number_decode(b"~").is_some() }
fn expand(buf: &[u8], v: &[usize; 10]) -> Vec<u8> {
    let mut out = Vec::new();
    for &c in buf {
        if c >= b'0' && c <= b'9' { out.extend(v[(c - b'0') as usize].to_string().bytes()); } else { out.push(c); }
    }
    out
}
fn set_vals() -> [usize; 10] {
    let v: [usize; 10] = kani::any();
    unsafe { VALS = v; }
    v
}

// xterm 256-colour palette, written from the xterm formula (not from the tables in decoder.rs)
fn xterm256(i: usize) -> (u8, u8, u8) {
    if i < 16 {
        let sys: [(u8, u8, u8); 16] = [
            (0, 0, 0), (128, 0, 0), (0, 128, 0), (128, 128, 0), (0, 0, 128), (128, 0, 128), (0, 128, 128), (192, 192, 192),
            (128, 128, 128), (255, 0, 0), (0, 255, 0), (255, 255, 0), (0, 0, 255), (255, 0, 255), (0, 255, 255), (255, 255, 255),
        ];
        sys[i]
    } else if i < 232 {
        let j = i - 16;
        let lvl = |k: usize| -> u8 { if k == 0 { 0 } else { (55 + 40 * k) as u8 } };
        (lvl(j / 36), lvl((j / 6) % 6), lvl(j % 6))
    } else {
        let v = (8 + 10 * (i - 232)) as u8;
        (v, v, v)
    }
}

// ---------------------------------------------------------------------------------------------
// Reference SGR interpreter (ECMA-48 / xterm ctlseqs / kitty underline extension), written on byte
// indices only. Input alphabet: marker digits, ';' and ':'; no two digits adjacent (one marker per field).
// `defined == false` marks inputs whose meaning the property does not fix (codes FaceModify cannot express:
// 7/27 reverse, 39/49/59 default colours, 2/8/28 faint/conceal, 6/26 rapid blink; 21 whose meaning differs between
// ECMA-48 "double underline" and the widespread "bold off"; malformed extended-colour forms; underline
// sub-styles > 5): the harness does not compare those.
struct RefSgr { face: FaceModify, defined: bool }

fn ref_val(buf: &[u8], lo: usize, hi: usize, v: &[usize; 10]) -> usize {
    if lo >= hi { 0 } else { v[(buf[lo] - b'0') as usize] }
}
// k-th `sep`-separated field of buf[lo..hi): (start, end); None if there are fewer fields
fn ref_field(buf: &[u8], lo: usize, hi: usize, sep: u8, k: usize) -> Option<(usize, usize)> {
    let mut idx = 0;
    let mut start = lo;
    let mut i = lo;
    while i <= hi {
        if i == hi || buf[i] == sep {
            if idx == k { return Some((start, i)); }
            idx += 1;
            start = i + 1;
        }
        i += 1;
    }
    None
}
fn ref_count(buf: &[u8], lo: usize, hi: usize, sep: u8) -> usize {
    let mut n = 1;
    let mut i = lo;
    while i < hi { if buf[i] == sep { n += 1; } i += 1; }
    n
}
fn ref_ansi(i: usize) -> RGBA { let (r, g, b) = xterm256(i); RGBA::new(r, g, b, 255) }

fn ref_sgr(buf: &[u8], len: usize, v: &[usize; 10]) -> RefSgr {
    let mut out = RefSgr { face: FaceModify::default(), defined: true };
    let ngroups = ref_count(buf, 0, len, b';');
    let mut gi = 0;
    while gi < ngroups {
        let (gs, ge) = ref_field(buf, 0, len, b';', gi).unwrap();
        let nsub = ref_count(buf, gs, ge, b':');
        let sub = |k: usize| -> usize { let (a, b) = ref_field(buf, gs, ge, b':', k).unwrap(); ref_val(buf, a, b, v) };
        let code = sub(0);
        let mut consumed = 1;
        match code {
            0 => out.face = FaceModify { reset: true, ..FaceModify::default() },
            1 => out.face.bold = Some(true),
            22 => out.face.bold = Some(false),
            3 => out.face.italic = Some(true),
            23 => out.face.italic = Some(false),
            5 => out.face.blink = Some(true),
            25 => out.face.blink = Some(false),
            9 => out.face.strike = Some(true),
            29 => out.face.strike = Some(false),
            24 => out.face.underline = Some(UnderlineStyle::None),
            4 => {
                out.face.underline = Some(if nsub >= 2 {
                    match sub(1) {
                        0 => UnderlineStyle::None,
                        1 => UnderlineStyle::Straight,
                        2 => UnderlineStyle::Double,
                        3 => UnderlineStyle::Curly,
                        4 => UnderlineStyle::Dotted,
                        5 => UnderlineStyle::Dashed,
                        _ => { out.defined = false; UnderlineStyle::Straight }
                    }
                } else { UnderlineStyle::Straight });
            }
            30..=37 => out.face.fg = Some(ref_ansi(code - 30)),
            90..=97 => out.face.fg = Some(ref_ansi(code - 90 + 8)),
            40..=47 => out.face.bg = Some(ref_ansi(code - 40)),
            100..=107 => out.face.bg = Some(ref_ansi(code - 100 + 8)),
            38 | 48 | 58 => {
                let mut color: Option<RGBA> = None;
                if nsub >= 2 {
                    let mode = sub(1);
                    if mode == 5 && nsub == 3 && sub(2) < 256 {
                        color = Some(ref_ansi(sub(2)));
                    } else if mode == 2 && nsub == 5 && sub(2) <= 255 && sub(3) <= 255 && sub(4) <= 255 {
                        color = Some(RGBA::new(sub(2) as u8, sub(3) as u8, sub(4) as u8, 255));
                    } else if mode == 2 && nsub == 6 && sub(3) <= 255 && sub(4) <= 255 && sub(5) <= 255 {
                        color = Some(RGBA::new(sub(3) as u8, sub(4) as u8, sub(5) as u8, 255));
                    }
                } else {
                    // semicolon form: the following groups (plain numbers) carry mode and components
                    let g = |k: usize| -> Option<usize> {
                        if gi + k >= ngroups { return None; }
                        let (a, b) = ref_field(buf, 0, len, b';', gi + k).unwrap();
                        if ref_count(buf, a, b, b':') != 1 { return None; }
                        Some(ref_val(buf, a, b, v))
                    };
                    match g(1) {
                        Some(5) => if let Some(n) = g(2) { if n < 256 { color = Some(ref_ansi(n)); consumed = 3; } },
                        Some(2) => if let (Some(r), Some(gr), Some(b)) = (g(2), g(3), g(4)) {
                            if r <= 255 && gr <= 255 && b <= 255 { color = Some(RGBA::new(r as u8, gr as u8, b as u8, 255)); consumed = 5; }
                        },
                        _ => {}
                    }
                }
                if color.is_none() { out.defined = false; }
                if code == 38 { out.face.fg = color; } else if code == 48 { out.face.bg = color; } else { out.face.underline_color = color; }
            }
            2 | 6 | 7 | 8 | 20 | 21 | 26 | 27 | 28 | 39 | 49 | 59 => out.defined = false,
            _ => {} // unknown codes are ignored
        }
        gi += consumed;
    }
    out
}

