// ---------------------------------------------------------------------------------------------
// Modular stand-in for `number_decode`, justified by its Verus contract (unit `numdec`):
//   number_decode(d) == Some(min(dec(d), usize::MAX)) if d is all ASCII digits (Some(0) if empty), else None.
// Harness buffers carry ONE marker digit ('1'..'9') per numeric field; the stub maps marker k to the
// harness-chosen symbolic value VALS[k]. The payload decoder is thereby exercised for EVERY numeric value,
// and a value landing in the wrong field is observable because fields use distinct markers.
static mut VALS: [usize; 10] = [0; 10];
fn number_decode_stub(data: &[u8]) -> Option<usize> {
    if data.len() == 1 && data[0] == b'~' {
        return Some(1); // probe used by stub_active(): the real function rejects it
    }
    if data.len() == 1 && data[0] >= b'a' && data[0] <= b'j' {
        // symbolic numeric field k: "some digit string whose value is VALS[k]"
        return Some(unsafe { VALS[(data[0] - b'a') as usize] });
    }
    // concrete digit strings of the harness buffer: the contract value dec(data) (saturating), None for non-digits
    let mut r = 0usize;
    let mut i = 0;
    while i < data.len() {
        if !(data[i] >= b'0' && data[i] <= b'9') { return None; }
        r = r.saturating_mul(10).saturating_add((data[i] - b'0') as usize);
        i += 1;
    }
    Some(r)
}
// true under Kani (stub installed); false when a counterexample is replayed natively, where the REAL
// number_decode runs: the harness then feeds real decimal digit strings instead of marker digits.
fn stub_active() -> bool { number_decode(b"~").is_some() }
fn expand(buf: &[u8], v: &[usize; 10]) -> Vec<u8> {
    // a symbolic field is a letter a..j that does not follow another letter (`i=`, the final `c`/`m`/`u` of a
    // sequence and similar are literal text of the template)
    let mut out = Vec::new();
    let mut prev_alpha = false;
    for &c in buf {
        if c >= b'a' && c <= b'j' && !prev_alpha { out.extend(v[(c - b'a') as usize].to_string().bytes()); } else { out.push(c); }
        prev_alpha = c.is_ascii_alphabetic();
    }
    out
}
fn set_vals() -> [usize; 10] {
    let v: [usize; 10] = kani::any();
    unsafe { VALS = v; }
    v
}

// xterm 256-colour palette, written from the xterm formula (not from the tables in decoder.rs)
fn xterm256(i: usize) -> (u8, u8, u8) {
    if i < 16 {
        let sys: [(u8, u8, u8); 16] = [
            (0, 0, 0), (128, 0, 0), (0, 128, 0), (128, 128, 0), (0, 0, 128), (128, 0, 128), (0, 128, 128), (192, 192, 192),
            (128, 128, 128), (255, 0, 0), (0, 255, 0), (255, 255, 0), (0, 0, 255), (255, 0, 255), (0, 255, 255), (255, 255, 255),
        ];
        sys[i]
    } else if i < 232 {
        let j = i - 16;
        let lvl = |k: usize| -> u8 { if k == 0 { 0 } else { (55 + 40 * k) as u8 } };
        (lvl(j / 36), lvl((j / 6) % 6), lvl(j % 6))
    } else {
        let v = (8 + 10 * (i - 232)) as u8;
        (v, v, v)
    }
}

// ---------------------------------------------------------------------------------------------
// Reference SGR interpreter (ECMA-48 / xterm ctlseqs / kitty underline extension), written on byte
// indices only. Input alphabet: decimal numbers, symbolic fields 'a'..'j' (any usize, delivered by the number_decode contract stub), ';' and ':'.
// `defined == false` marks inputs whose meaning the property does not fix (codes FaceModify cannot express:
// 7/27 reverse, 39/49/59 default colours, 2/8/28 faint/conceal, 6/26 rapid blink; 21 whose meaning differs between
// ECMA-48 "double underline" and the widespread "bold off"; malformed extended-colour forms; underline
// sub-styles > 5): the harness does not compare those.
struct RefSgr { face: FaceModify, defined: bool }

// A parsed parameter template (produced by the harness generator from the same template text that is fed,
// as bytes, to the real decoder): groups separated by ';', fields inside a group separated by ':'.
#[derive(Clone, Copy)]
enum F { Num(usize), Sym(usize), Empty }
fn fval(f: F, v: &[usize; 10]) -> usize { match f { F::Num(n) => n, F::Sym(k) => v[k], F::Empty => 0 } }

fn ref_ansi(i: usize) -> RGBA { let (r, g, b) = xterm256(i); RGBA::new(r, g, b, 255) }

fn ref_sgr(groups: &[&[F]], v: &[usize; 10]) -> RefSgr {
    let mut out = RefSgr { face: FaceModify::default(), defined: true };
    let ngroups = groups.len();
    let mut gi = 0;
    while gi < ngroups {
        let grp = groups[gi];
        let nsub = grp.len();
        let sub = |k: usize| -> usize { fval(grp[k], v) };
        let code = sub(0);
        let mut consumed = 1;
        match code {
            0 => out.face = FaceModify { reset: true, ..FaceModify::default() },
            1 => out.face.bold = Some(true),
            22 => out.face.bold = Some(false),
            3 => out.face.italic = Some(true),
            23 => out.face.italic = Some(false),
            5 => out.face.blink = Some(true),
            25 => out.face.blink = Some(false),
            9 => out.face.strike = Some(true),
            29 => out.face.strike = Some(false),
            24 => out.face.underline = Some(UnderlineStyle::None),
            4 => {
                out.face.underline = Some(if nsub >= 2 {
                    match sub(1) {
                        0 => UnderlineStyle::None,
                        1 => UnderlineStyle::Straight,
                        2 => UnderlineStyle::Double,
                        3 => UnderlineStyle::Curly,
                        4 => UnderlineStyle::Dotted,
                        5 => UnderlineStyle::Dashed,
                        _ => { out.defined = false; UnderlineStyle::Straight }
                    }
                } else { UnderlineStyle::Straight });
            }
            30..=37 => out.face.fg = Some(ref_ansi(code - 30)),
            90..=97 => out.face.fg = Some(ref_ansi(code - 90 + 8)),
            40..=47 => out.face.bg = Some(ref_ansi(code - 40)),
            100..=107 => out.face.bg = Some(ref_ansi(code - 100 + 8)),
            38 | 48 | 58 => {
                let mut color: Option<RGBA> = None;
                if nsub >= 2 {
                    let mode = sub(1);
                    if mode == 5 && nsub == 3 && sub(2) < 256 {
                        color = Some(ref_ansi(sub(2)));
                    } else if mode == 2 && nsub == 5 && sub(2) <= 255 && sub(3) <= 255 && sub(4) <= 255 {
                        color = Some(RGBA::new(sub(2) as u8, sub(3) as u8, sub(4) as u8, 255));
                    } else if mode == 2 && nsub == 6 && sub(3) <= 255 && sub(4) <= 255 && sub(5) <= 255 {
                        color = Some(RGBA::new(sub(3) as u8, sub(4) as u8, sub(5) as u8, 255));
                    }
                } else {
                    // semicolon form: the following groups (plain numbers) carry mode and components
                    let g = |k: usize| -> Option<usize> {
                        if gi + k >= ngroups || groups[gi + k].len() != 1 { None } else { Some(fval(groups[gi + k][0], v)) }
                    };
                    match g(1) {
                        Some(5) => if let Some(n) = g(2) { if n < 256 { color = Some(ref_ansi(n)); consumed = 3; } },
                        Some(2) => if let (Some(r), Some(gr), Some(b)) = (g(2), g(3), g(4)) {
                            if r <= 255 && gr <= 255 && b <= 255 { color = Some(RGBA::new(r as u8, gr as u8, b as u8, 255)); consumed = 5; }
                        },
                        _ => {}
                    }
                }
                if color.is_none() { out.defined = false; }
                if code == 38 { out.face.fg = color; } else if code == 48 { out.face.bg = color; } else { out.face.underline_color = color; }
            }
            2 | 6 | 7 | 8 | 20 | 21 | 26 | 27 | 28 | 39 | 49 | 59 => out.defined = false,
            _ => {} // unknown codes are ignored
        }
        gi += consumed;
    }
    out
}
