//@ target: src/view/container.rs

use crate::view::BoxConstraint;

fn any_size() -> Size { Size { height: kani::any(), width: kani::any() } }
fn within(s: Size, min: Size, max: Size) -> bool {
    s.height >= min.height && s.height <= max.height && s.width >= min.width && s.width <= max.width
}

//# kind=complete tier=quick props=C10 fns=Size::clamp,BoxConstraint::clamp,BoxConstraint::loosen,BoxConstraint::tight,BoxConstraint::loose | for every constraint with min <= max, clamp(size) lies within the constraint and is the identity on sizes already inside; loosen/loose have zero minimum and keep the maximum; tight admits exactly one size; no panic
#[kani::proof]
#[kani::unwind(2)]
fn c10_constraint_clamp() {
    let (min, max, s) = (any_size(), any_size(), any_size());
    kani::assume(min.height <= max.height && min.width <= max.width);
    let ct = BoxConstraint::new(min, max);
    let c = ct.clamp(s);
    assert!(within(c, min, max));
    if within(s, min, max) { assert!(c == s); }
    assert!(c.height == if s.height < min.height { min.height } else if s.height > max.height { max.height } else { s.height });
    assert!(c.width == if s.width < min.width { min.width } else if s.width > max.width { max.width } else { s.width });
    let l = ct.loosen();
    assert!(l.min() == Size::empty() && l.max() == max);
    let t = BoxConstraint::tight(s);
    assert!(t.clamp(min) == s);
    let lo = BoxConstraint::loose(max);
    assert!(lo.min() == Size::empty() && lo.max() == max && within(lo.clamp(s), Size::empty(), max));
    kani::cover!(s.height > max.height && s.width < min.width);
}

//# kind=complete tier=quick props=C10 fns=Align::align | Align::align(size, space) never panics and for Start/Center/End/Expand/Shrink places a child of (clamped) size inside the space: offset + min(size, space) <= space; Center leaves floor((space-size)/2) before it, End leaves nothing after it
#[kani::proof]
#[kani::unwind(2)]
fn c10_align() {
    let (size, space): (usize, usize) = (kani::any(), kani::any());
    let k: u8 = kani::any();
    kani::assume(k < 6);
    let off: i32 = kani::any();
    let a = match k { 0 => Align::Start, 1 => Align::Center, 2 => Align::End, 3 => Align::Expand, 4 => Align::Shrink, _ => Align::Offset(off) };
    let r = a.align(size, space);
    let s = if size > space { space } else { size };
    match k {
        0 | 3 | 4 => assert!(r == 0),
        1 => assert!(r == (space - s) / 2 && r + s <= space),
        2 => assert!(r + s == space),
        _ => {} // Offset: semantics are the library's own; only absence of panics/overflow is required
    }
    kani::cover!(k == 5 && off < 0);
}
