//@ target: src/image.rs
//@ strip-tracing src/image.rs

// Image::quantize's pixel loop on small images with the palette construction (octree + k-d build: out of CBMC's reach; the k-d
// side is proved in Verus) replaced by a hand-made two-colour palette whose tree satisfies the invariant proved for KDTree::new.
const PA: [u8; 3] = [10, 20, 30];
const PB: [u8; 3] = [200, 100, 50];
fn two_colour_palette() -> ColorPalette {
    let a = RGBA::new(PA[0], PA[1], PA[2], 255);
    let b = RGBA::new(PB[0], PB[1], PB[2], 255);
    // build_rec(dim 0) on [(0,a),(1,b)]: sorted by red, index = 1 -> node b with left child a
    let nodes = vec![
        KDNode { color: PA, color_index: 0, dim: 1, left: None, right: None },
        KDNode { color: PB, color_index: 1, dim: 0, left: Some(0), right: None },
    ];
    ColorPalette { colors: vec![a, b], kdtree: KDTree { nodes } }
}
fn stub_from_image<S: Surface<Item = RGBA>>(_img: S, _palette_size: usize, _bg: RGBA) -> Option<ColorPalette> {
    Some(two_colour_palette())
}
// ColorPalette::find by its contract (proved in the Verus unit kdtree): some palette entry at minimal squared distance
// every lookup is recorded (query colour, answer) so that the harness can say WHICH colour each pixel was looked up with
static mut QUERIES: [[u8; 3]; 4] = [[0; 3]; 4];
static mut ANSWERS: [usize; 4] = [0; 4];
static mut NQ: usize = 0;
fn stub_find(p: &ColorPalette, color: RGBA) -> (usize, RGBA) {
    let (da, db) = (d2(color, PA), d2(color, PB));
    let i: usize = if da < db { 0 } else if db < da { 1 } else { if kani::any() { 0 } else { 1 } };
    unsafe { if NQ < 4 { QUERIES[NQ] = color.to_rgb(); ANSWERS[NQ] = i; } NQ += 1; }
    (i, p.colors[i])
}
fn any_opaque() -> RGBA { RGBA::new(kani::any(), kani::any(), kani::any(), 255) }
fn d2(p: RGBA, q: [u8; 3]) -> i32 {
    let [r, g, b] = p.to_rgb();
    { let (x, y, z) = (r as i32 - q[0] as i32, g as i32 - q[1] as i32, b as i32 - q[2] as i32); x * x + y * y + z * z }
}

fn quantize_case(h: usize, w: usize, dither: bool) {
    let px: [RGBA; 2] = [any_opaque(), any_opaque()];
    let data: std::sync::Arc<[RGBA]> = std::sync::Arc::new(px);   // (Arc::from(slice) reaches an intrinsic kani-compiler 0.68 crashes on)
    let img = Image::from_parts(data, Shape::from(Size::new(h, w)));
    let r = img.quantize(2, dither, None);
    let (palette, qimg) = match r { Some(x) => x, None => { assert!(false); return; } };
    // an index image of the same size whose every entry refers to a palette colour
    assert!(qimg.height() == h && qimg.width() == w && palette.size() == 2);
    let row: usize = kani::any(); let col: usize = kani::any();
    kani::assume(row < h && col < w);
    let q = *qimg.get(Position::new(row, col)).unwrap();
    assert!(q < 2);
    let p = px[row * w + col];
    // one lookup per pixel, in row-major order, and the stored index is the answer of that pixel's lookup
    let k = row * w + col;
    unsafe {
        assert!(NQ == h * w && q == ANSWERS[k]);
        // without dithering the colour looked up is the (opaque) pixel itself: by find's contract the entry is a nearest palette colour
        if !dither { assert!(QUERIES[k] == p.to_rgb()); }
    }
    // colours that are in the palette are reproduced exactly, with or without dithering
    let all_in = (0..h * w).all(|k| px[k].to_rgb() == PA || px[k].to_rgb() == PB);
    if all_in { assert!(palette.get(q).to_rgb() == p.to_rgb()); }
    kani::cover!(all_in && q == 1);
    std::mem::forget(palette); std::mem::forget(qimg); std::mem::forget(img);
}

//# kind=bounded tier=quick props=C13 fns="Image::quantize,ColorError::new,ColorError::between,ColorError::add" bound="1x2 image (wider than tall), two opaque symbolic pixels, dithering on; fixed two-colour palette: ColorPalette::from_image stubbed, ColorPalette::find replaced by its Verus-proved contract" | quantize does not panic (the two error rows are indexed in range), yields an index image of the image's size with every entry < palette size; pixels whose colours are all in the palette are reproduced exactly under dithering (the diffused error stays zero)
#[kani::proof]
#[kani::unwind(10)]
#[kani::stub(ColorPalette::from_image, stub_from_image)]
#[kani::stub(ColorPalette::find, stub_find)]
fn c13_quantize_1x2_dither() { quantize_case(1, 2, true) }

//# kind=bounded tier=quick props=C13 fns="Image::quantize" bound="2x1 image (taller than wide), otherwise as c13_quantize_1x2_dither" | the same for a tall image (error carried to the next row)
#[kani::proof]
#[kani::unwind(10)]
#[kani::stub(ColorPalette::from_image, stub_from_image)]
#[kani::stub(ColorPalette::find, stub_find)]
fn c13_quantize_2x1_dither() { quantize_case(2, 1, true) }

//# kind=bounded tier=quick props=C13 fns="Image::quantize" bound="1x2 image, dithering off, otherwise as above" | without dithering each entry is a palette colour at minimal distance from its pixel; sizes and index validity as above
#[kani::proof]
#[kani::unwind(10)]
#[kani::stub(ColorPalette::from_image, stub_from_image)]
#[kani::stub(ColorPalette::find, stub_find)]
fn c13_quantize_1x2_plain() { quantize_case(1, 2, false) }

// alpha compositing is the dependency's (linear-light, powf): replaced by a marker function so that the harness can see WHERE in
// the pipeline the pixel is composited - the palette was built from composited colours, so every lookup must use them
fn stub_blend(bg: RGBA, c: RGBA) -> RGBA {
    let [r, g, b, _] = c.to_rgba();
    let [br, _, _, _] = bg.to_rgba();
    RGBA::new(r / 2 + br / 2, g / 2, b / 2, 255)
}

//# kind=bounded tier=quick props=C13 fns="Image::quantize" bound="1x1 image, one symbolic pixel with any alpha, any background, both dithering settings; compositing replaced by a marker function; palette and lookup as above" | a pixel that is not opaque is composited over the background BEFORE it is looked up (and before the - initially zero - diffused error is added), an opaque pixel is looked up as it is: the colour handed to the palette lookup is the composited colour in both dithering modes
#[kani::proof]
#[kani::unwind(10)]
#[kani::stub(ColorPalette::from_image, stub_from_image)]
#[kani::stub(ColorPalette::find, stub_find)]
#[kani::stub(<RGBA as Color>::blend_over, stub_blend)]
fn c13_quantize_alpha_order() {
    let p = RGBA::new(kani::any(), kani::any(), kani::any(), kani::any());
    let bg = RGBA::new(kani::any(), kani::any(), kani::any(), 255);
    let px: [RGBA; 1] = [p];
    let data: std::sync::Arc<[RGBA]> = std::sync::Arc::new(px);
    let img = Image::from_parts(data, Shape::from(Size::new(1, 1)));
    let dither: bool = kani::any();
    let r = img.quantize(2, dither, Some(bg));
    assert!(r.is_some());
    let want = if p.to_rgba()[3] < 255 { stub_blend(bg, p) } else { p };
    unsafe { assert!(NQ == 1 && QUERIES[0] == want.to_rgb()); }
    kani::cover!(dither && p.to_rgba()[3] < 255);
    std::mem::forget(r); std::mem::forget(img);
}
