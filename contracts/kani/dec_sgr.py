"""C06: sgr_face against the reference SGR interpreter, one harness per parameter *structure*.

Each structure is a concrete byte string in which every numeric field is one marker digit (D) - its value is
a fully symbolic usize delivered through the number_decode contract stub - or empty. Values are unbounded;
the structure (number of groups / sub-parameters) is what is bounded, hence kind=bounded."""
import os
_here = os.path.dirname(os.path.abspath(__file__))
COMMON = open(os.path.join(_here, "_dec_common.rs")).read()

# structure strings: D = a numeric field, ';' group separator, ':' sub-parameter separator
# (structure, positions of D fields fixed to an extended-colour introducer 38|48|58).
# All other numeric fields range over every usize except 38, 48 and 58 (that case split keeps the
# iterator state of sgr_face concrete enough for CBMC; it is part of the stated bound).
QUICK = [
    ("", ()),                 # CSI m
    ("D", ()),
    ("D;D", ()),
    ("D;D;D", ()),
    (";D", ()), ("D;", ()), ("D;;D", ()),
    ("D:D", ()), ("D:D;D", ()), ("D;D:D", ()),
    ("D:D:D", (0,)),            # 38:5:n
    ("D:D:D:D:D", (0,)),        # 38:2:r:g:b
    ("D:D::D:D:D", (0,)),       # 38:2::r:g:b (empty colour space)
    ("D:D:D:D:D:D", (0,)),      # 38:2:cs:r:g:b
    ("D;D;D", (0,)),            # 38;5;n
    ("D;D;D;D", (0,)),          # 38;5;n;X
    ("D;D;D;D;D", (0,)),        # 38;2;r;g;b
    ("D;D;D;D;D", ()),          # five plain codes
    ("D;D;D;D;D;D;D", (0,)),    # 38;2;r;g;b;X;Y  /  38;5;n;X;Y;Z;W
    ("D;D;D;D;D;D;D", (1,)),    # X;38;2;r;g;b;Y
    ("D:D:D:D:D;D:D:D:D:D", (0, 5)),  # fg and bg in colon form
    ("D;D:D:D:D:D;D", (1,)),
]
THOROUGH = [
    ("D;D;D;D;D;D;D", ()),
    ("D;D;D;D;D;D;D;D;D;D", (0, 5)),   # 38;2;r;g;b;48;2;r;g;b  - what the encoder emits for fg+bg
    ("D;D;D;D;D;D;D;D", (0, 3)),       # 38;5;n;48;5;m;X;Y
    ("D:D:D;D:D:D;D:D", (0, 3)),
    ("D;D;D;D;D;D:D", (0,)),
    ("D:D;D;D;D;D;D", (2,)),
]

def render(shape):
    out = []
    k = 0
    for ch in shape:
        if ch == "D":
            out.append(str(k)); k += 1
        else:
            out.append(ch)
    assert k <= 10, shape
    return "".join(out)

def harness(spec, tier, idx):
    shape, ext = spec
    buf = render(shape)
    nd = shape.count("D")
    name = "c06_sgr_shape_%s%02d" % ("q" if tier == "quick" else "t", idx)
    assumes = []
    for k in range(nd):
        if k in ext:
            assumes.append("    kani::assume(v[%d] == 38 || v[%d] == 48 || v[%d] == 58);" % (k, k, k))
        else:
            assumes.append("    kani::assume(v[%d] != 38 && v[%d] != 48 && v[%d] != 58);" % (k, k, k))
    desc = shape or "<empty>"
    if ext:
        desc += " with field(s) %s in {38,48,58}" % ",".join(str(e) for e in ext)
    return '''
//# kind=bounded tier=%s props=C06 bound="parameter structure `%s` (D = any number; other fields != 38,48,58), every numeric value" fns=sgr_face,sgr_color | sgr_face equals the reference SGR interpreter on `CSI %s m` for all values of the numeric fields
#[kani::proof]
#[kani::unwind(%d)]
#[kani::stub(number_decode, number_decode_stub)]
fn %s() {
    let v = set_vals();
%s
    let buf: &[u8] = b"%s";
    let want = ref_sgr(buf, buf.len(), &v);
    kani::assume(want.defined);
    let got = if stub_active() { sgr_face(buf) } else { sgr_face(&expand(buf, &v)) };
    assert!(got == want.face);
    kani::cover!(true);
}
''' % (tier, desc, shape, max(len(buf) + 3, 12), name, "\n".join(assumes), buf)

parts = ["//@ target: src/decoder.rs\n", COMMON]
for i, s in enumerate(QUICK):
    parts.append(harness(s, "quick", i))
for i, s in enumerate(THOROUGH):
    parts.append(harness(s, "thorough", i))
TEXT = "\n".join(parts)
