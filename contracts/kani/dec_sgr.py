"""C06: sgr_face against the reference SGR interpreter, one harness per parameter *template*.

A template is a concrete SGR parameter string in which letters a..j stand for numeric fields of ANY value
(fully symbolic usize, delivered through the number_decode contract stub). Codes that decide how many of
the following parameters are consumed (38/48/58 and the mode after them) and all codes but the last are
concrete in each template - that keeps sgr_face's iterator state concrete for CBMC - so the harnesses are
bounded in parameter structure (kind=bounded) while complete in the symbolic fields."""
import os
_here = os.path.dirname(os.path.abspath(__file__))
COMMON = open(os.path.join(_here, "_dec_common.rs")).read()

FIRST = [0, 1, 3, 4, 5, 9, 22, 23, 24, 25, 29, 31, 44, 95, 104, 50]
QUICK = ["", "a", "a:b", "a:b:c", ";a", "1;"]
QUICK += ["%d;a" % c for c in FIRST]
QUICK += [
    "4:a", "4:a;b", "4:3;a",
    "1;0;a", "0;1;a", "31;1;0;a", "1;4;31;0", "3;0;9", "1;;a",
    # semicolon-form extended colours (`38;5;n`, `38;2;r;g;b;...`) are NOT here: CBMC does not finish them
    # (> 15 min each); what they need - exactly 2 / 4 parameters consumed, colour exact - is proved on
    # sgr_color itself by the complete harness c04_sgr_color (group dec_payload)
    "38:5:a", "38:5:a;b", "38:2:a:b:c", "38:2:a:b:c;d", "38:2::a:b:c", "38:2:a:b:c:d", "48:2:a:b:c;d", "58:2:a:b:c",
    "38:2:a:b:c;48:2:d:e:f;g",
]
THOROUGH = [
    "1;3;5;9;a", "22;23;25;29;a", "1;22;3;23;a",
    "4:a;24;b", "24;4:a;b",
]

def fields(tmpl):
    out = []
    for grp in tmpl.split(";"):
        fs = []
        for f in grp.split(":"):
            if f == "":
                fs.append("F::Empty")
            elif f.isdigit():
                fs.append("F::Num(%s)" % f)
            else:
                assert len(f) == 1 and "a" <= f <= "j", tmpl
                fs.append("F::Sym(%d)" % (ord(f) - ord("a")))
        out.append("&[" + ", ".join(fs) + "]")
    return "&[" + ", ".join(out) + "]"

def harness(tmpl, tier, idx):
    name = "c06_sgr_%s%02d" % ("q" if tier == "quick" else "t", idx)
    shown = tmpl or "<empty>"
    return '''
//# kind=bounded tier=%s props=C06 bound="parameter template `%s` (letters = any usize)" fns=sgr_face,sgr_color | sgr_face(`%s`) equals the reference SGR interpreter for all values of the symbolic fields
#[kani::proof]
#[kani::unwind(%d)]
#[kani::stub(number_decode, number_decode_stub)]
fn %s() {
    let v = set_vals();
    let buf: &[u8] = b"%s";
    let want = ref_sgr(%s, &v);
    kani::assume(want.defined);
    let got = if stub_active() { sgr_face(buf) } else { sgr_face(&expand(buf, &v)) };
    assert!(got == want.face);
    kani::cover!(true);
}
''' % (tier, shown, shown, max(len(tmpl) + 3, 12), name, tmpl, fields(tmpl))

parts = ["//@ target: src/decoder.rs\n", COMMON]
for i, s in enumerate(QUICK):
    parts.append(harness(s, "quick", i))
for i, s in enumerate(THOROUGH):
    parts.append(harness(s, "thorough", i))
TEXT = "\n".join(parts)
