//@ target: src/glyph.rs
//@ helper

// a Glyph whose content is never looked at (its fallback text is supplied by a stub): Glyph's field is private to this module
pub(crate) fn fake_glyph() -> Glyph {
    // a real allocation with uninitialised contents: never read (fallback_str is stubbed) and never dropped (the harness forgets the cell)
    let a: Arc<std::mem::MaybeUninit<GlyphInner>> = Arc::new(std::mem::MaybeUninit::uninit());
    Glyph { inner: unsafe { std::mem::transmute::<Arc<std::mem::MaybeUninit<GlyphInner>>, Arc<GlyphInner>>(a) } }
}
