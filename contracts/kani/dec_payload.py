import os
_here = os.path.dirname(os.path.abspath(__file__))
COMMON = open(os.path.join(_here, "_dec_common.rs")).read()
TEXT = r"""//@ target: src/decoder.rs

/*COMMON*/
//# kind=complete tier=quick props=C02,C04 fns=keyboard_decode_key | keyboard_decode_key(code) never panics; Char(c) only for Unicode scalar values outside the private-use block with c as u32 == code; F(n) has 13 <= n <= 35; named keys per kitty table; everything else None (all usize)
#[kani::proof]
#[kani::unwind(2)]
fn c02_keyboard_decode_key() {
    let code: usize = kani::any();
    match keyboard_decode_key(code) {
        Some(KeyName::Esc) => assert!(code == 27),
        Some(KeyName::Enter) => assert!(code == 13),
        Some(KeyName::Tab) => assert!(code == 9),
        Some(KeyName::Backspace) => assert!(code == 127),
        Some(KeyName::F(n)) => assert!(code >= 57376 && code <= 57398 && n == code - 57376 + 13),
        Some(KeyName::Char(c)) => {
            assert!(c as usize == code);
            assert!(!(code >= 57344 && code <= 63743));
            assert!(code <= 0x10FFFF && !(code >= 0xD800 && code <= 0xDFFF));
        }
        Some(_) => assert!(false),
        None => assert!(
            (code >= 57344 && code <= 63743 && !(code >= 57376 && code <= 57398))
                || code > 0x10FFFF || (code >= 0xD800 && code <= 0xDFFF)
        ),
    }
    kani::cover!(matches!(keyboard_decode_key(code), Some(KeyName::Char(_))));
}

//# kind=complete tier=quick props=C04,C02,C06 fns=sgr_color | sgr_color over any argument list (0..=6 numeric fields, every value, both separator forms): `5;n` is the xterm-256 colour n (n<256) else None; `2;r;g;b` (and `2:cs:r:g:b` in colon form) are exactly (r,g,b), out-of-range components only ever clamped, never wrapped; anything else None; no panic; in the semicolon form exactly 2 (`5;n`) or 4 (`2;r;g;b`) parameters are consumed, so the parameters that follow stay independent SGR codes
#[kani::proof]
#[kani::unwind(8)]
#[kani::stub(number_decode, number_decode_stub)]
fn c04_sgr_color() {
    let v = set_vals();
    let n: usize = kani::any();
    kani::assume(n <= 6);
    let colon: bool = kani::any();
    let fields: [&[u8]; 6] = [b"b", b"c", b"d", b"e", b"f", b"g"];
    let mut it = fields[..n].iter().copied();
    let got = sgr_color(&mut it, colon);
    let mut left = 0usize;
    while it.next().is_some() { left += 1; }
    let cl = |x: usize| -> u8 { if x > 255 { 255 } else { x as u8 } };
    if n >= 2 && v[1] == 5 {
        if v[2] < 256 {
            let (r, g, b) = xterm256(v[2]);
            assert!(got == Some(RGBA::new(r, g, b, 255)));
        } else {
            assert!(got.is_none());
        }
    } else if n >= 1 && v[1] == 2 {
        // which fields carry r, g, b: semicolon form -> the three after the mode; colon form -> the last three of 3 or 4
        let first = if colon && n >= 5 { 3 } else { 2 };
        if n >= first + 2 {
            assert!(got == Some(RGBA::new(cl(v[first]), cl(v[first + 1]), cl(v[first + 2]), 255)));
        } else {
            assert!(got.is_none());
        }
    } else {
        assert!(got.is_none());
    }
    if !colon && got.is_some() {
        // semicolon form: what follows the colour belongs to the next SGR parameter
        assert!(left == n - (if v[1] == 5 { 2 } else { 4 }));
    }
    kani::cover!(got.is_some() && n == 5 && colon);
    kani::cover!(got.is_some() && n == 6 && !colon);
    kani::cover!(got.is_some() && n == 3 && v[2] > 231);
}

fn hexval(b: u8) -> Option<u8> {
    if b >= b'0' && b <= b'9' { Some(b - b'0') } else if b >= b'a' && b <= b'f' { Some(b - b'a' + 10) } else if b >= b'A' && b <= b'F' { Some(b - b'A' + 10) } else { None }
}

//# kind=complete tier=quick props=C04,C02 fns=hex_decode | hex_decode on any two byte pairs (termcap payloads): each pair of hex digits (either case) yields its byte value, decoding stops at the first pair that is not two hex digits, never a panic
#[kani::proof]
#[kani::unwind(6)]
fn c04_hex_decode_pairs() {
    let d: [u8; 4] = kani::any();
    let mut it = hex_decode(&d);
    let first = it.next();
    let second = it.next();
    let third = it.next();
    let p0 = match (hexval(d[0]), hexval(d[1])) { (Some(h), Some(l)) => Some((h << 4) | l), _ => None };
    let p1 = match (hexval(d[2]), hexval(d[3])) { (Some(h), Some(l)) => Some((h << 4) | l), _ => None };
    assert!(first == p0);
    assert!(second == if p0.is_some() { p1 } else { None });
    assert!(third.is_none());
    kani::cover!(first.is_some() && second.is_some());
}
""".replace("/*COMMON*/", COMMON)
