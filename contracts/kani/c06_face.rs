//@ target: src/face.rs

// Abstract view of the packed attribute set: (underline style, five independent flags).
fn any_attrs() -> FaceAttrs {
    let bits: u16 = kani::any();
    // representation invariant of FaceAttrs (what pack() produces)
    kani::assume(bits & 7 <= 5 && (bits >> 3) <= 31);
    FaceAttrs { bits }
}
fn valid(a: FaceAttrs) -> bool {
    a.bits & 7 <= 5 && (a.bits >> 3) <= 31
}
fn any_under() -> UnderlineStyle {
    let k: u8 = kani::any();
    kani::assume(k <= 5);
    match k {
        0 => UnderlineStyle::None,
        1 => UnderlineStyle::Straight,
        2 => UnderlineStyle::Double,
        3 => UnderlineStyle::Curly,
        4 => UnderlineStyle::Dotted,
        _ => UnderlineStyle::Dashed,
    }
}
fn flag(a: FaceAttrs, f: FaceAttrs) -> bool {
    a.bits & f.bits != 0
}
fn flags(a: FaceAttrs) -> u16 {
    a.bits >> 3
}
fn any_rgba() -> RGBA {
    RGBA::new(kani::any(), kani::any(), kani::any(), kani::any())
}
fn any_opt_rgba() -> Option<RGBA> {
    if kani::any() { Some(any_rgba()) } else { None }
}
fn any_opt_bool() -> Option<bool> {
    if kani::any() { Some(kani::any()) } else { None }
}
fn any_face() -> Face {
    Face { fg: any_opt_rgba(), bg: any_opt_rgba(), attrs: any_attrs() }
}
fn any_modify() -> FaceModify {
    FaceModify {
        reset: kani::any(),
        fg: any_opt_rgba(),
        bg: any_opt_rgba(),
        underline: if kani::any() { Some(any_under()) } else { None },
        underline_color: any_opt_rgba(),
        bold: any_opt_bool(),
        italic: any_opt_bool(),
        blink: any_opt_bool(),
        strike: any_opt_bool(),
    }
}

//# kind=complete tier=quick props=C06 fns=FaceAttrs::pack,FaceAttrs::unpack,FaceAttrs::underline | pack/unpack are inverse on (style, 5 flag bits) and keep the representation invariant
#[kani::proof]
#[kani::unwind(2)]
fn c06_pack_unpack() {
    let u = any_under();
    let f: u16 = kani::any();
    kani::assume(f <= 31);
    let a = FaceAttrs::pack(u, f);
    assert!(valid(a));
    assert!(a.unpack() == (u, f));
    assert!(a.underline() == u);
    let b = any_attrs();
    let (bu, bf) = b.unpack();
    assert!(FaceAttrs::pack(bu, bf) == b);
    kani::cover!(u == UnderlineStyle::Dashed && f == 31);
}

//# kind=complete tier=quick props=C06 fns=FaceAttrs::insert,FaceAttrs::remove,FaceAttrs::contains | insert/remove/contains are set operations on flags with "rhs style wins / is removed" on the underline component, for all pairs of attribute sets
#[kani::proof]
#[kani::unwind(2)]
fn c06_attrs_insert_remove() {
    let a = any_attrs();
    let b = any_attrs();
    let i = a.insert(b);
    assert!(valid(i));
    assert!(flags(i) == flags(a) | flags(b));
    assert!(i.underline() == if b.underline() != UnderlineStyle::None { b.underline() } else { a.underline() });
    let r = a.remove(b);
    assert!(valid(r));
    assert!(flags(r) == flags(a) & !flags(b) & 31);
    assert!(r.underline() == if b.underline() != UnderlineStyle::None { UnderlineStyle::None } else { a.underline() });
    let c = a.contains(b);
    assert!(c == ((flags(a) & flags(b) == flags(b)) && (b.underline() == UnderlineStyle::None || a.underline() == b.underline())));
    // inserting then querying: everything inserted is contained
    assert!(i.contains(b));
    kani::cover!(c && b.bits != 0);
}

//# kind=complete tier=quick props=C06 fns="<FaceAttrs as BitOr>::bitor,<FaceAttrs as BitAnd>::bitand,<FaceAttrs as BitXor>::bitxor" | `|`, `&`, `^` against the (style, flag set) view
#[kani::proof]
#[kani::unwind(2)]
fn c06_attrs_bitops() {
    let a = any_attrs();
    let b = any_attrs();
    let o = a | b;
    assert!(valid(o) && o == a.insert(b));
    let n = a & b;
    assert!(valid(n));
    assert!(flags(n) == flags(a) & flags(b));
    assert!(n.underline() == if a.underline() == b.underline() { a.underline() } else { UnderlineStyle::None });
    let x = a ^ b;
    assert!(valid(x));
    assert!(flags(x) == flags(a) ^ flags(b));
    assert!(x.underline() == if b.underline() == UnderlineStyle::None { a.underline() } else { b.underline() });
    kani::cover!(a.bits != 0 && b.bits != 0);
}

//# kind=complete tier=quick props=C06 fns="<FaceAttrs as BitOrAssign>::bitor_assign,<FaceAttrs as BitAndAssign>::bitand_assign,<FaceAttrs as BitXorAssign>::bitxor_assign" | the compound-assignment operators keep the representation invariant and agree with the plain operators
#[kani::proof]
#[kani::unwind(2)]
fn c06_attrs_assign_ops() {
    let a = any_attrs();
    let b = any_attrs();
    let mut o = a;
    o |= b;
    assert!(valid(o));
    assert!(o == (a | b));
    let mut n = a;
    n &= b;
    assert!(valid(n));
    assert!(n == (a & b));
    let mut x = a;
    x ^= b;
    assert!(valid(x));
    assert!(x == (a ^ b));
    kani::cover!(a.bits != 0 && b.bits != 0);
}

//# kind=complete tier=quick props=C06 fns=FaceModify::apply | apply(m, f) follows SGR semantics: reset restores the default face, then every colour/attribute present in m is set or cleared independently and nothing else changes (all FaceModify x all Face)
#[kani::proof]
#[kani::unwind(6)]
fn c06_apply_sgr_semantics() {
    let m = any_modify();
    let f = any_face();
    let out = m.apply(f);
    let base = if m.reset { Face::default() } else { f };
    assert!(valid(out.attrs));
    assert!(out.fg == if m.fg.is_some() { m.fg } else { base.fg });
    assert!(out.bg == if m.bg.is_some() { m.bg } else { base.bg });
    let want_under = match m.underline { Some(u) => u, None => base.attrs.underline() };
    assert!(out.attrs.underline() == want_under);
    let want = |upd: Option<bool>, fl: FaceAttrs| -> bool { match upd { Some(v) => v, None => flag(base.attrs, fl) } };
    assert!(flag(out.attrs, FaceAttrs::BOLD) == want(m.bold, FaceAttrs::BOLD));
    assert!(flag(out.attrs, FaceAttrs::ITALIC) == want(m.italic, FaceAttrs::ITALIC));
    assert!(flag(out.attrs, FaceAttrs::BLINK) == want(m.blink, FaceAttrs::BLINK));
    assert!(flag(out.attrs, FaceAttrs::STRIKE) == want(m.strike, FaceAttrs::STRIKE));
    // FaceModify cannot express reverse: it is only affected by reset
    assert!(flag(out.attrs, FaceAttrs::REVERSE) == flag(base.attrs, FaceAttrs::REVERSE));
    kani::cover!(m.reset && m.strike == Some(true));
    kani::cover!(!m.reset && m.underline == Some(UnderlineStyle::None) && f.attrs.underline() != UnderlineStyle::None);
}
