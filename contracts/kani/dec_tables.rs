//@ target: src/terminal.rs

// C04: numeric tables for DEC modes and statuses. Oracle: the enum discriminants themselves
// (xterm ctlseqs DECSET numbers) - every mode the library can *send* must be recognised in a report.

const ALL_MODES: [DecMode; 9] = [
    DecMode::VisibleCursor, DecMode::AutoWrap, DecMode::SixelScrolling, DecMode::MouseReport,
    DecMode::MouseMotions, DecMode::MouseSGR, DecMode::AltScreen, DecMode::SynchronizedOutput,
    DecMode::BracketedPaste,
];
const ALL_STATUS: [DecModeStatus; 5] = [
    DecModeStatus::NotRecognized, DecModeStatus::Enabled, DecModeStatus::Disabled,
    DecModeStatus::PermanentlyEnabled, DecModeStatus::PermanentlyDisabled,
];

//# kind=complete tier=quick props=C04 fns=DecMode::from_usize | DecMode::from_usize(m as usize) == Some(m) for every mode; for every code, Some(m) implies m as usize == code and None implies no mode has that code
#[kani::proof]
#[kani::unwind(11)]
fn c04_decmode_table() {
    let k: usize = kani::any();
    kani::assume(k < 9);
    let m = ALL_MODES[k];
    assert!(DecMode::from_usize(m as usize) == Some(m));
    let code: usize = kani::any();
    match DecMode::from_usize(code) {
        Some(r) => assert!(r as usize == code),
        None => {
            let mut i = 0;
            while i < 9 {
                assert!(ALL_MODES[i] as usize != code);
                i += 1;
            }
        }
    }
    kani::cover!(DecMode::from_usize(code).is_some());
}

//# kind=complete tier=quick props=C04 fns=DecModeStatus::from_usize | DecModeStatus::from_usize is the inverse of `as usize` on 0..=4 and None elsewhere
#[kani::proof]
#[kani::unwind(7)]
fn c04_decmode_status_table() {
    let code: usize = kani::any();
    match DecModeStatus::from_usize(code) {
        Some(r) => assert!(r as usize == code && code <= 4),
        None => assert!(code > 4),
    }
    let k: usize = kani::any();
    kani::assume(k < 5);
    assert!(DecModeStatus::from_usize(ALL_STATUS[k] as usize) == Some(ALL_STATUS[k]));
    kani::cover!(code == 4);
}

//# kind=complete tier=quick props=C04,C05 fns=DecMode::from_usize,DecModeStatus::from_usize | the numbers themselves, transcribed from xterm ctlseqs / DECRPM: DECTCEM 25, DECAWM 7, sixel scrolling 80, mouse 1000/1003/1006, alternate screen 1049, synchronized output 2026, bracketed paste 2004; DECRPM status 0 not recognised, 1 set, 2 reset, 3 permanently set, 4 permanently reset
#[kani::proof]
#[kani::unwind(11)]
fn c04_dec_numbers() {
    assert!(DecMode::VisibleCursor as usize == 25 && DecMode::AutoWrap as usize == 7 && DecMode::SixelScrolling as usize == 80);
    assert!(DecMode::MouseReport as usize == 1000 && DecMode::MouseMotions as usize == 1003 && DecMode::MouseSGR as usize == 1006);
    assert!(DecMode::AltScreen as usize == 1049 && DecMode::SynchronizedOutput as usize == 2026 && DecMode::BracketedPaste as usize == 2004);
    assert!(DecModeStatus::from_usize(0) == Some(DecModeStatus::NotRecognized));
    assert!(DecModeStatus::from_usize(1) == Some(DecModeStatus::Enabled));
    assert!(DecModeStatus::from_usize(2) == Some(DecModeStatus::Disabled));
    assert!(DecModeStatus::from_usize(3) == Some(DecModeStatus::PermanentlyEnabled));
    assert!(DecModeStatus::from_usize(4) == Some(DecModeStatus::PermanentlyDisabled));
    assert!(DecMode::from_usize(1049) == Some(DecMode::AltScreen) && DecMode::from_usize(2004) == Some(DecMode::BracketedPaste));
    kani::cover!(true);
}
