//@ target: src/surface.rs

// Bounded twin of the Verus unit `surface` (counterexample provider; not counted as proved):
// a 3x4 owned surface holding 1..=12, one symbolic view (optionally after a transpose), one symbolic
// operation, compared cell by cell with the same selection on a plain matrix.
const H: usize = 3;
const W: usize = 4;

fn py_norm(x: i64, n: i64) -> i64 { if x < 0 { if x + n < 0 { 0 } else { x + n } } else if x > n { n } else { x } }
// window of `a..b` on an axis of length n (Python semantics)
fn py_range(a: i64, b: i64, n: usize) -> (usize, usize) {
    let s = py_norm(a, n as i64);
    let e = py_norm(b, n as i64);
    if s < e { (s as usize, e as usize) } else { (0, 0) }
}
fn fresh() -> SurfaceOwned<u8> {
    SurfaceOwned::new_with(Size { height: H, width: W }, |p| (p.row * W + p.col + 1) as u8)
}
fn any_bound() -> i64 { let x: i8 = kani::any(); kani::assume(x >= -6 && x <= 6); x as i64 }

// is root cell (r, c) inside the window selected by rows ra..rb, cols ca..cb of the (optionally transposed) 3x4 matrix?
// returns the view coordinates of the cell if so
fn in_window(t: bool, r: usize, c: usize, rw: (usize, usize), cw: (usize, usize)) -> Option<(usize, usize)> {
    // view coordinates of root cell before windowing
    let (vr, vc) = if t { (c, r) } else { (r, c) };
    if vr >= rw.0 && vr < rw.1 && vc >= cw.0 && vc < cw.1 { Some((vr - rw.0, vc - cw.0)) } else { None }
}

//# kind=bounded tier=quick props=C07 bound="3x4 surface, one view(a..b, c..d) with bounds in -6..=6, optional transpose first, one of fill/clear/insert/get/iter" fns=SurfaceMut::fill,SurfaceMut::clear,SurfaceMut::insert,Surface::get,Surface::iter,Surface::transpose,SurfaceMut::view_mut | a (transposed) sub-view reads and writes exactly the cells the same selection denotes on a plain matrix; everything outside is untouched
#[kani::proof]
#[kani::unwind(14)]
fn c07_view_twin_bounded() {
    let t: bool = kani::any();
    let (ra, rb, ca, cb) = (any_bound(), any_bound(), any_bound(), any_bound());
    let (vh, vw) = if t { (W, H) } else { (H, W) };
    let rw = py_range(ra, rb, vh);
    let cw = py_range(ca, cb, vw);
    let empty = rw.0 == rw.1 || cw.0 == cw.1;
    let wh = if empty { 0 } else { rw.1 - rw.0 };
    let ww = if empty { 0 } else { cw.1 - cw.0 };
    let op: u8 = kani::any();
    kani::assume(op < 5);
    let mut surf = fresh();
    let ins_pos = Position { row: kani::any(), col: kani::any() };
    kani::assume(ins_pos.row < 4 && ins_pos.col < 4);
    kani::assume(empty || (ins_pos.row < wh && ins_pos.col < ww)); // start position inside the window
    let probe = Position { row: kani::any(), col: kani::any() };
    kani::assume(probe.row < 5 && probe.col < 5);
    let mut got_probe: Option<u8> = None;
    let mut count = 0usize;
    let mut order_ok = true;
    {
        let base = (&mut surf).transpose();
        // `base` is the transposed surface; undo the transpose when t is false
        if t {
            let mut base = base;
            let mut v = base.view_mut((ra as isize)..(rb as isize), (ca as isize)..(cb as isize));
            assert!(v.height() == wh && v.width() == ww);
            match op {
                0 => v.fill(99),
                1 => v.clear(),
                2 => v.insert(ins_pos, [71u8, 72, 73]),
                3 => got_probe = v.get(probe).copied(),
                _ => { for (i, x) in v.iter().enumerate() { count += 1; let (r, c) = (i / ww.max(1), i % ww.max(1));
                        // row-major: item i is view cell (r, c) = root cell (cw.0 + c, rw.0 + r) of the transposed matrix
                        if *x as usize != (cw.0 + c) * W + (rw.0 + r) + 1 { order_ok = false; } } }
            }
        } else {
            let mut base = base.transpose();
            let mut v = base.view_mut((ra as isize)..(rb as isize), (ca as isize)..(cb as isize));
            assert!(v.height() == wh && v.width() == ww);
            match op {
                0 => v.fill(99),
                1 => v.clear(),
                2 => v.insert(ins_pos, [71u8, 72, 73]),
                3 => got_probe = v.get(probe).copied(),
                _ => { for (i, x) in v.iter().enumerate() { count += 1; let (r, c) = (i / ww.max(1), i % ww.max(1));
                        if *x as usize != (rw.0 + r) * W + (cw.0 + c) + 1 { order_ok = false; } } }
            }
        }
    }
    // compare every root cell with the plain-matrix model
    let data = surf.to_vec();
    let mut r = 0;
    while r < H {
        let mut c = 0;
        while c < W {
            let old = (r * W + c + 1) as u8;
            let cell = data[r * W + c];
            let inside = if empty { None } else { in_window(t, r, c, rw, cw) };
            match (op, inside) {
                (0, Some(_)) => assert!(cell == 99),
                (1, Some(_)) => assert!(cell == 0),
                (2, Some((vr, vc))) => {
                    // insert writes items at row-major indices k0, k0+1, k0+2 of the window (clipped at its end)
                    let k = vr * ww + vc;
                    let k0 = ins_pos.row * ww + ins_pos.col;
                    if k >= k0 && k < k0 + 3 { assert!(cell == 71 + (k - k0) as u8); } else { assert!(cell == old); }
                }
                _ => assert!(cell == old), // outside the window, or read-only operations: untouched
            }
            c += 1;
        }
        r += 1;
    }
    if op == 3 {
        let want = if !empty && probe.row < wh && probe.col < ww {
            let (rr, cc) = if t { (cw.0 + probe.col, rw.0 + probe.row) } else { (rw.0 + probe.row, cw.0 + probe.col) };
            Some((rr * W + cc + 1) as u8)
        } else { None };
        assert!(got_probe == want);
    }
    if op == 4 { assert!(count == wh * ww && order_ok); }
    kani::cover!(t && op == 1 && wh == 2 && ww == 3);
    kani::cover!(!t && op == 2 && wh >= 2 && ww >= 2);
}
