"""C02/C04: payload decoders (`Matcher::decode`) on templates of the byte strings their NFAs accept.

Letters a..j are numeric fields of ANY value (symbolic usize through the number_decode contract stub), the
rest of the template is concrete, so each harness is complete in the parameter values and bounded in the
shape of the sequence (kind=bounded; stated per harness)."""
import os
_here = os.path.dirname(os.path.abspath(__file__))
COMMON = open(os.path.join(_here, "_dec_common.rs")).read()

HEAD = r'''//@ target: src/decoder.rs
//@ strip-tracing src/decoder.rs
/*COMMON*/
fn dec<M: Matcher>(m: &M, buf: &[u8], v: &[usize; 10]) -> Option<M::Item> {
    if stub_active() { m.decode(buf) } else { m.decode(&expand(buf, v)) }
}
'''

def h(name, props, tmpl, fns, desc, body, tier="quick", unwind=None):
    esc = tmpl.encode("unicode_escape").decode().replace('"', '\\"')
    shown = esc.replace("\\x1b", "ESC").replace("\\\\", "\\")
    return '''
//# kind=bounded tier=%s props=%s bound="sequence template `%s` (letters = any usize)" fns="%s" | %s
#[kani::proof]
#[kani::unwind(%d)]
#[kani::stub(number_decode, number_decode_stub)]
fn %s() {
    let v = set_vals();
    let buf: &[u8] = b"%s";
%s
    kani::cover!(true);
}
''' % (tier, props, shown, fns, desc, unwind or (len(tmpl) + 4), name, esc, body)

parts = [HEAD]

# ---- SGR mouse: CSI < b ; x ; y M|m   (xterm ctlseqs, "SGR (1006)" encoding)
for suffix, press in (("M", "true"), ("m", "false")):
    parts.append(h("c04_mouse_%s" % ("press" if press == "true" else "release"), "C04,C02", "\x1b[<a;b;c" + suffix,
      "<MouseEventMatcher as Matcher>::decode",
      "SGR mouse report: pos == (y-1, x-1) exactly, modifier bits == (b>>2)&7 (shift, alt, ctrl), PRESS flag iff final byte is M, button name per the library table; zero coordinates never underflow (unrecognised instead); no panic",
      '''    let got = dec(&MouseEventMatcher, buf, &v);
    let (b, x, y) = (v[0], v[1], v[2]);
    match &got {
        Some(TerminalEvent::Mouse(m)) => {
            assert!(x >= 1 && y >= 1);
            assert!(m.pos.col == x - 1 && m.pos.row == y - 1);
            let mut mode = KeyMod::from_bits(((b >> 2) & 7) as u32);
            if %s { mode = mode | KeyMod::PRESS; }
            assert!(m.mode == mode);
            let btn = b & 3;
            let name = if b & 64 != 0 {
                if btn == 0 { KeyName::MouseWheelDown } else if btn == 1 { KeyName::MouseWheelUp } else { KeyName::MouseMove }
            } else if btn == 0 { KeyName::MouseLeft } else if btn == 1 { KeyName::MouseMiddle } else if btn == 2 { KeyName::MouseRight } else { KeyName::MouseMove };
            assert!(m.name == name);
        }
        Some(_) => assert!(false),
        None => assert!(x == 0 || y == 0),
    }
    std::mem::forget(got); // no drop glue of the other TerminalEvent variants (BTreeMap/String) for CBMC to unroll''' % press))

# ---- CPR: CSI row ; col R
parts.append(h("c04_cursor_position", "C04,C02", "\x1b[a;bR", "<CursorPositionMatcher as Matcher>::decode",
  "cursor position report decodes to (row-1, col-1) exactly; a zero coordinate never underflows (unrecognised instead)",
  '''    let got = dec(&CursorPositionMatcher, buf, &v);
    match &got {
        Some(TerminalEvent::CursorPosition(p)) => assert!(v[0] >= 1 && v[1] >= 1 && p.row == v[0] - 1 && p.col == v[1] - 1),
        Some(_) => assert!(false),
        None => assert!(v[0] == 0 || v[1] == 0),
    }
    std::mem::forget(got);'''))

# ---- DECRPM: CSI ? mode ; status $ y
parts.append(h("c04_dec_mode_report", "C04,C02", "\x1b[?a;b$y", "<DecModeMatcher as Matcher>::decode",
  "DECRPM decodes to the mode and status whose numeric codes were transmitted; unknown codes are unrecognised",
  '''    let got = dec(&DecModeMatcher, buf, &v);
    match &got {
        Some(TerminalEvent::DecMode { mode, status }) => assert!(*mode as usize == v[0] && *status as usize == v[1]),
        Some(_) => assert!(false),
        None => assert!(crate::terminal::DecMode::from_usize(v[0]).is_none() || DecModeStatus::from_usize(v[1]).is_none()),
    }
    std::mem::forget(got);''', unwind=12))

# ---- XTWINOPS size reports
parts.append(h("c04_term_size", "C04,C02", "\x1b[8;a;bt\x1b[4;c;dt", "<TermSizeMatcher as Matcher>::decode",
  "text-area size reports decode to exactly the transmitted cell and pixel sizes",
  '''    let got = dec(&TermSizeMatcher, buf, &v);
    match &got {
        Some(TerminalEvent::Size(s)) => assert!(s.cells.height == v[0] && s.cells.width == v[1] && s.pixels.height == v[2] && s.pixels.width == v[3]),
        _ => assert!(false),
    }
    std::mem::forget(got);'''))

# ---- kitty keyboard
parts.append(h("c04_kitty_level", "C04,C02", "\x1b[?au", "<KittyKeyboardMatcher as Matcher>::decode",
  "CSI ? n u decodes to keyboard level n",
  '''    let got = dec(&KittyKeyboardMatcher, buf, &v);
    match &got {
        Some(TerminalEvent::KeyboardLevel(n)) => assert!(*n == v[0]),
        _ => assert!(false),
    }
    std::mem::forget(got);'''))
parts.append(h("c04_kitty_key_mods", "C04,C02", "\x1b[a;bu", "<KittyKeyboardMatcher as Matcher>::decode,keyboard_decode_key",
  "CSI code ; mods u decodes to the key keyboard_decode_key(code) names and modifier bits (mods-1)&511 (none for mods <= 1); unknown codes unrecognised; no panic",
  '''    let got = dec(&KittyKeyboardMatcher, buf, &v);
    match &got {
        Some(TerminalEvent::Key(k)) => {
            assert!(keyboard_decode_key(v[0]) == Some(k.name));
            let want = if v[1] > 1 { KeyMod::from_bits((v[1] - 1) as u32) } else { KeyMod::EMPTY };
            assert!(k.mode == want);
        }
        Some(_) => assert!(false),
        None => assert!(keyboard_decode_key(v[0]).is_none()),
    }
    std::mem::forget(got);'''))
parts.append(h("c02_kitty_key_empty", "C02", "\x1b[u", "<KittyKeyboardMatcher as Matcher>::decode",
  "CSI u with an empty parameter string (accepted by the matcher's NFA) does not panic",
  '''    let got = dec(&KittyKeyboardMatcher, buf, &v);
    std::mem::forget(got);'''))
parts.append(h("c02_kitty_key_alt_event", "C02,C04", "\x1b[a:b;c:du", "<KittyKeyboardMatcher as Matcher>::decode",
  "CSI code:alt ; mods:event u : key from the first code, event type != 0 is unrecognised, never a panic",
  '''    let got = dec(&KittyKeyboardMatcher, buf, &v);
    match &got {
        Some(TerminalEvent::Key(k)) => assert!(keyboard_decode_key(v[0]) == Some(k.name) && v[3] == 0),
        Some(_) => assert!(false),
        None => assert!(keyboard_decode_key(v[0]).is_none() || v[3] != 0),
    }
    std::mem::forget(got);'''))

# ---- DA1 (DeviceAttrsMatcher): collects into a BTreeSet - CBMC does not finish (> 20 min); not under contract

# ---- kitty image response
parts.append(h("c04_kitty_image_ok", "C04,C02", "\x1b_Gi=a,p=b;OK\x1b\\", "<KittyImageMatcher as Matcher>::decode",
  "kitty graphics response: id and placement are exactly the transmitted numbers, OK means no error",
  '''    let got = dec(&KittyImageMatcher, buf, &v);
    match &got {
        Some(TerminalEvent::KittyImage { id, placement, error }) => assert!(*id == v[0] as u64 && *placement == Some(v[1] as u64) && error.is_none()),
        _ => assert!(false),
    }
    std::mem::forget(got);''', unwind=20))
parts.append(h("c04_kitty_image_noplacement", "C04,C02", "\x1b_Gi=a;OK\x1b\\", "<KittyImageMatcher as Matcher>::decode",
  "kitty graphics response without p= has no placement",
  '''    let got = dec(&KittyImageMatcher, buf, &v);
    match &got {
        Some(TerminalEvent::KittyImage { id, placement, error }) => assert!(*id == v[0] as u64 && placement.is_none() && error.is_none()),
        _ => assert!(false),
    }
    std::mem::forget(got);''', unwind=18))

# ---- bracketed paste
parts.append(h("c04_bracketed_paste", "C04,C02", "\x1b[200~zz \xc3\xa9\x1b[201~", "<BracketedPasteMatcher as Matcher>::decode",
  "a bracketed paste decodes to exactly the pasted text (here: ASCII + one two-byte UTF-8 character); no panic",
  '''    let got = dec(&BracketedPasteMatcher, buf, &v);
    match &got {
        Some(TerminalEvent::Paste(text)) => { let b = text.as_bytes(); assert!(b.len() == 5 && b[0] == b'z' && b[1] == b'z' && b[2] == b' ' && b[3] == 0xc3 && b[4] == 0xa9); }
        _ => assert!(false),
    }
    std::mem::forget(got);''', tier="thorough", unwind=26))

# ---- DECRPSS (ReportSettingMatcher): needs normalisation K1 (the tracing::info! in its fallback arm made kani-compiler 0.68 panic,
# intrinsics.rs:243); its SGR content (sgr_face + apply) is covered by the C06 harnesses, here: framing and no panic
parts.append(h("c02_decrpss_valid", "C02,C04", "\x1bP1$r0;am\x1b\\", "<ReportSettingMatcher as Matcher>::decode",
  "a valid DECRPSS report of an SGR setting (payload `0;<n>m`, any n) is reported as the current face; the payload is sliced inside the matched bytes (no panic)",
  '''    let got = dec(&ReportSettingMatcher, buf, &v);
    match &got {
        Some(TerminalEvent::FaceGet(_)) => {}
        _ => assert!(false),
    }
    std::mem::forget(got);''', unwind=24))
parts.append(h("c02_decrpss_invalid", "C02,C04", "\x1bP0$r0;am\x1b\\", "<ReportSettingMatcher as Matcher>::decode",
  "a DECRPSS report flagged invalid (code 0) yields no event; no panic",
  '''    let got = dec(&ReportSettingMatcher, buf, &v);
    assert!(got.is_none());
    std::mem::forget(got);''', unwind=24))

# ---- OSC colour reports (parse_color): harnesses for rgb:<1-4 hex digits> were built and withdrawn - str::parse::<RGBA>,
# strip_prefix, split and from_str_radix over symbolic text do not finish in CBMC (4 x 600 s timeouts); not under contract

TEXT = "\n".join(parts).replace("/*COMMON*/", COMMON)
