//@ unit base64enc
//@ props C14
//@ source src/encoder.rs
#![feature(allocator_api)]
#![allow(unused_imports, dead_code, unused_variables, unused_mut)]
use std::io::Write;
use vstd::prelude::*;

verus! {

//@ include std_specs.inc

//@ include b64_enc_spec.inc

// ---------------------------------------------------------------- chunk independence (spec level)
proof fn lemma_rem_len(s: Seq<u8>)
    ensures rem(s).len() < 3, rem(s).len() == s.len() % 3,
    decreases s.len(),
{
    if s.len() >= 3 { lemma_rem_len(s.skip(3)); }
}

// encoding s ++ t == encoding the groups of s, then continuing with the carry of s in front of t
proof fn lemma_full_concat(s: Seq<u8>, t: Seq<u8>)
    ensures
        full(s + t) == full(s) + full(rem(s) + t),
        rem(s + t) == rem(rem(s) + t),
    decreases s.len(),
{
    if s.len() < 3 {
        assert(full(s) =~= Seq::<u8>::empty());
        assert(full(s) + full(rem(s) + t) =~= full(s + t));
    } else {
        let s3 = s.skip(3);
        lemma_full_concat(s3, t);
        assert((s + t).skip(3) =~= s3 + t);
        assert((s + t)[0] == s[0] && (s + t)[1] == s[1] && (s + t)[2] == s[2]);
        assert(full(s + t) == enc3(s[0], s[1], s[2]) + full(s3 + t));
        assert(full(s) == enc3(s[0], s[1], s[2]) + full(s3));
        assert(enc3(s[0], s[1], s[2]) + (full(s3) + full(rem(s3) + t)) =~= (enc3(s[0], s[1], s[2]) + full(s3)) + full(rem(s3) + t));
    }
}

// pushing one byte onto a carry of < 3 bytes
proof fn lemma_full_short(s: Seq<u8>)
    requires s.len() < 3,
    ensures full(s) == Seq::<u8>::empty(), rem(s) == s,
{
}

proof fn lemma_full_three(s: Seq<u8>)
    requires s.len() == 3,
    ensures full(s) == enc3(s[0], s[1], s[2]), rem(s) == Seq::<u8>::empty(),
{
    assert(s.skip(3).len() == 0);
    assert(full(s.skip(3)) =~= Seq::<u8>::empty());
    assert(full(s) =~= enc3(s[0], s[1], s[2]) + Seq::<u8>::empty());
    assert(enc3(s[0], s[1], s[2]) + Seq::<u8>::empty() =~= enc3(s[0], s[1], s[2]));
    assert(rem(s.skip(3)) =~= Seq::<u8>::empty());
}

// the code computes the indices with truncating u8 shifts and a final mask; equal to the RFC form
proof fn lemma_idx_code(a: u8, b: u8, c: u8)
    ensures
        (((a << 4) | (b >> 4)) & 0x3f) == idx1(a, b),
        (((b << 2) | (c >> 6)) & 0x3f) == idx2(b, c),
        ((a << 4) & 0x3f) == idx1(a, 0),
        ((b << 2) & 0x3f) == idx2(b, 0),
        idx0(a) < 64, idx1(a, b) < 64, idx2(b, c) < 64, idx3(c) < 64, idx1(a, 0) < 64, idx2(b, 0) < 64,
{
    assert(((a & 3) << 4) | (0u8 >> 4) < 64) by (bit_vector);
    assert(((b & 15) << 2) | (0u8 >> 6) < 64) by (bit_vector);
    assert((((a << 4) | (b >> 4)) & 0x3f) == ((a & 3) << 4) | (b >> 4)) by (bit_vector);
    assert((((b << 2) | (c >> 6)) & 0x3f) == ((b & 15) << 2) | (c >> 6)) by (bit_vector);
    assert(((a << 4) & 0x3f) == ((a & 3) << 4) | (0u8 >> 4)) by (bit_vector);
    assert(((b << 2) & 0x3f) == ((b & 15) << 2) | (0u8 >> 6)) by (bit_vector);
    assert(a >> 2 < 64) by (bit_vector);
    assert(((a & 3) << 4) | (b >> 4) < 64) by (bit_vector);
    assert(((b & 15) << 2) | (c >> 6) < 64) by (bit_vector);
    assert(c & 63 < 64) by (bit_vector);
}

// ---------------------------------------------------------------- trusted prelude
#[verifier::external_type_specification]
#[verifier::external_body]
pub struct ExIoError(std::io::Error);

// N6: the generic sink `W: io::Write` is instantiated with Vec<u8> (the sink the library itself uses);
// `<Vec<u8> as Write>::write_all` appends the whole buffer and cannot fail.
pub assume_specification<A: std::alloc::Allocator>[ <Vec<u8, A> as std::io::Write>::write_all ](v: &mut Vec<u8, A>, buf: &[u8]) -> (r: std::io::Result<()>)
    ensures
        final(v)@ == old(v)@ + buf@,
        r is Ok;

// N8: lookups in the constant table BASE64_ENCODE are routed through its specification; that the table
// has 64 entries equal to the RFC alphabet is proved by the Kani harness c14_encode_table (complete).
#[verifier::external_body]
fn b64_enc_lookup(i: u8) -> (r: u8)
    requires i < 64,
    ensures r == alpha(i),
{
    BASE64_ENCODE_TABLE[i as usize]
}
#[verifier::external]
const BASE64_ENCODE_TABLE: &[u8] = b"ABCDEFGHIJKLMNOPQRSTUVWXYZabcdefghijklmnopqrstuvwxyz0123456789+/";

//@ item struct Base64Encoder

impl Base64Encoder<Vec<u8>> {
    pub closed spec fn sink(&self) -> Seq<u8> { self.inner@ }
    // bytes accepted but not yet encoded
    pub closed spec fn carry(&self) -> Seq<u8> { self.buffer@.subrange(0, self.size as int) }
    pub closed spec fn wf(&self) -> bool { self.size < 3 }

    //@ fn impl<W: Write> Base64Encoder<W> :: new ret=r
    //@+ ensures r.wf(), r.sink() == inner@, r.carry() == Seq::<u8>::empty(),
    //@subst N6 generic sink W instantiated with Vec<u8> /\bW\b/Vec<u8>/

    //@ fn impl<W: Write> Write for Base64Encoder<W> :: write ret=r
    //@+ requires old(self).wf(),
    //@+ ensures
    //@+     final(self).wf(),
    //@+     final(self).sink() =~= old(self).sink() + full(old(self).carry() + buf@),
    //@+     final(self).carry() =~= rem(old(self).carry() + buf@),
    //@+     r == Ok::<usize, std::io::Error>(buf@.len() as usize),
    //@subst N7 `.iter().copied()` replaced by `.iter()` with a dereference at the binding /for b in( \w+:)? buf\.iter\(\)\.copied\(\)/for b0 in\1 buf.iter()/
    //@proof loop1.start let b = *b0; // N7
    //@subst N4 array pattern replaced by indexed lets /let \[s0, s1, s2\] = self\.buffer;/let s0 = self.buffer[0]; let s1 = self.buffer[1]; let s2 = self.buffer[2];/
    //@subst N8 BASE64_ENCODE[..] lookups routed through the table specification /BASE64_ENCODE\[\((.*)\) as usize\]/b64_enc_lookup(\1)/
    //@forit 1 it
    //@loop 1 invariant
    //@loop 1     self.size < 3, old(self).size < 3,
    //@loop 1     it.index@ <= buf@.len(),
    //@loop 1     self.inner@ =~= old(self).inner@ + full(old(self).carry() + buf@.subrange(0, it.index@ as int)),
    //@loop 1     self.buffer@.subrange(0, self.size as int) =~= rem(old(self).carry() + buf@.subrange(0, it.index@ as int)),
    //@proof loop1.start proof { lemma_write_step(old(self).carry(), buf@, it.index@ as int); }
    //@proof before:/let\smut\sdst/ proof { lemma_idx_code(s0, s1, s2); }
    //@proof before:/Ok\(buf\.len\(\)\)/ proof { assert(buf@.subrange(0, buf@.len() as int) =~= buf@); }

    //@ fn impl<W: Write> Base64Encoder<W> :: finish ret=r
    //@+ requires self.wf(),
    //@+ ensures
    //@+     match r { Ok(out) => out@ =~= self.sink() + enc_tail(self.carry()), Err(_) => false },
    //@subst N6 generic sink W instantiated with Vec<u8> /\bW\b/Vec<u8>/
    //@subst N8 BASE64_ENCODE[..] lookups routed through the table specification /BASE64_ENCODE\[\((.*)\) as usize\]/b64_enc_lookup(\1)/
    //@proof before:/let\smut\sdst/ proof { lemma_idx_code(buffer@[0], buffer@[1], buffer@[2]); }
    //@subst N14 `Some(s) = iter.next()` rebinds the element by value (`let s = *s_ref;`) /if let Some\((s\d)\) = iter\.next\(\) \{/if let Some(\1_ref) = iter.next() { let \1 = *\1_ref;/
}

// one more input byte: how full()/rem() of (carry + prefix) evolve
proof fn lemma_write_step(carry: Seq<u8>, buf: Seq<u8>, k: int)
    requires 0 <= k < buf.len(), carry.len() < 3,
    ensures ({
        let before = carry + buf.subrange(0, k);
        let after = carry + buf.subrange(0, k + 1);
        let r = rem(before).push(buf[k]);
        &&& rem(before).len() < 3
        &&& (r.len() < 3 ==> full(after) == full(before) && rem(after) == r)
        &&& (r.len() == 3 ==> full(after) == full(before) + enc3(r[0], r[1], r[2]) && rem(after) == Seq::<u8>::empty())
    }),
{
    let before = carry + buf.subrange(0, k);
    let after = carry + buf.subrange(0, k + 1);
    let one = seq![buf[k]];
    assert(after =~= before + one);
    lemma_rem_len(before);
    lemma_full_concat(before, one);
    let r = rem(before).push(buf[k]);
    assert(rem(before) + one =~= r);
    if r.len() < 3 {
        lemma_full_short(r);
        assert(full(before) + Seq::<u8>::empty() =~= full(before));
    } else {
        lemma_full_three(r);
    }
}

// ---------------------------------------------------------------- top level: any partition into writes gives b64 of the concatenation
// Two consecutive writes equal one write of the concatenation (by the write contract algebra); with
// new() (carry empty, sink empty) and finish() this yields output == b64(all bytes) by induction on the number of writes.
proof fn lemma_two_writes(c0: Seq<u8>, a: Seq<u8>, b: Seq<u8>)
    requires c0.len() < 3,
    ensures
        full(c0 + a) + full(rem(c0 + a) + b) == full(c0 + (a + b)),
        rem(rem(c0 + a) + b) == rem(c0 + (a + b)),
{
    lemma_full_concat(c0 + a, b);
    assert((c0 + a) + b =~= c0 + (a + b));
}

// length of the output: 4 characters per started group (what the kitty handler's 4096-byte chunking relies on)
proof fn lemma_full_len(s: Seq<u8>)
    ensures full(s).len() == 4 * (s.len() / 3),
    decreases s.len(),
{
    if s.len() >= 3 {
        lemma_full_len(s.skip(3));
        assert(enc3(s[0], s[1], s[2]).len() == 4);
    }
}

proof fn lemma_b64_len(s: Seq<u8>)
    ensures b64(s).len() == 4 * ((s.len() + 2) / 3), b64(s).len() % 4 == 0,
{
    lemma_full_len(s);
    lemma_rem_len(s);
}

// splitting a payload whose length is a multiple of four into pieces of 4096: every piece (k-th, 0-based) is a
// multiple of four long, at most 4096, and only the last may be shorter - so `m = (k + 1 < count)` marks exactly
// the non-final chunks and no base64 quantum is split across two graphics commands
proof fn lemma_chunks_4096(total: nat, k: nat)
    requires total % 4 == 0, k * 4096 < total,
    ensures ({
        let len = if (k + 1) * 4096 <= total { 4096 } else { (total - k * 4096) as int };
        &&& 0 < len <= 4096
        &&& len % 4 == 0
        &&& (len < 4096 ==> (k + 1) * 4096 >= total)
    }),
{
    assert((k * 4096) % 4 == 0) by (nonlinear_arith);
    assert((k + 1) * 4096 == k * 4096 + 4096) by (nonlinear_arith);
}

proof fn lemma_stream_total(data: Seq<u8>)
    ensures full(Seq::<u8>::empty() + data) + enc_tail(rem(Seq::<u8>::empty() + data)) == b64(data),
{
    assert(Seq::<u8>::empty() + data =~= data);
}

} // verus!

fn main() {}
