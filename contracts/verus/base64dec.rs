//@ unit base64dec
//@ props C14
//@ rlimit 120
//@ source src/decoder.rs
#![feature(allocator_api)]
#![allow(unused_imports, dead_code, unused_variables, unused_mut)]
use vstd::prelude::*;

verus! {

//@ include b64_dec_spec.inc

proof fn lemma_dec_text_split(t: Seq<u8>, k: int)
    requires 0 <= k <= t.len(), k % 4 == 0,
    ensures dec_text(t) == dec_text(t.subrange(0, k)) + dec_text(t.skip(k)),
    decreases k,
{
    if k == 0 {
        assert(t.skip(0) =~= t);
        assert(dec_text(t.subrange(0, 0)) =~= Seq::<u8>::empty());
        assert(Seq::<u8>::empty() + dec_text(t) =~= dec_text(t));
    } else {
        let t4 = t.skip(4);
        lemma_dec_text_split(t4, k - 4);
        assert(t.subrange(0, k).subrange(0, 4) =~= t.subrange(0, 4));
        assert(t.subrange(0, k).skip(4) =~= t4.subrange(0, k - 4));
        assert(t4.skip(k - 4) =~= t.skip(k));
        assert(dec4(t.subrange(0, 4)) + (dec_text(t4.subrange(0, k - 4)) + dec_text(t4.skip(k - 4)))
            =~= (dec4(t.subrange(0, 4)) + dec_text(t4.subrange(0, k - 4))) + dec_text(t4.skip(k - 4)));
    }
}

proof fn lemma_all_b64_suffix(t: Seq<u8>, k: int)
    requires 0 <= k <= t.len(),
    ensures all_b64(t) ==> all_b64(t.skip(k)),
{
    if all_b64(t) {
        assert forall|i: int| 0 <= i < t.skip(k).len() implies is_b64_char(#[trigger] t.skip(k)[i]) by {
            assert(t.skip(k)[i] == t[i + k]);
        }
    }
}

proof fn lemma_dec_text_one(t: Seq<u8>)
    requires t.len() == 4,
    ensures dec_text(t) == dec4(t),
{
    assert(t.subrange(0, 4) =~= t);
    assert(dec_text(t.skip(4)) =~= Seq::<u8>::empty());
    assert(dec4(t) + Seq::<u8>::empty() =~= dec4(t));
}

// ---------------------------------------------------------------- trusted prelude
#[verifier::external_type_specification]
#[verifier::external_body]
pub struct ExIoError(std::io::Error);

// N6: the generic source `R: io::Read` is instantiated with AnyReader - *any* reader obeying the io::Read
// contract: it may return fewer bytes than asked for (down to 1), returns 0 only at end of input or for an
// empty buffer, and may fail at any call. The read-size schedule is left to the solver.
#[verifier::external_body]
pub struct AnyReader { inner: Box<dyn std::io::Read> }
impl AnyReader {
    pub uninterp spec fn remaining(&self) -> Seq<u8>;
    // a reliable reader never reports an I/O error (used to say: the decoder adds no errors of its own)
    pub uninterp spec fn reliable(&self) -> bool;

    #[verifier::external_body]
    fn read(&mut self, buf: &mut [u8]) -> (r: Result<usize, std::io::Error>)
        ensures
            final(buf)@.len() == old(buf)@.len(),
            match r {
                Ok(n) => {
                    &&& n <= old(buf)@.len() && n <= old(self).remaining().len()
                    &&& final(buf)@.subrange(0, n as int) == old(self).remaining().subrange(0, n as int)
                    &&& final(buf)@.subrange(n as int, old(buf)@.len() as int) == old(buf)@.subrange(n as int, old(buf)@.len() as int)
                    &&& final(self).remaining() == old(self).remaining().skip(n as int)
                    &&& (n == 0 ==> (old(buf)@.len() == 0 || old(self).remaining().len() == 0))
                },
                Err(_) => final(self).remaining() == old(self).remaining() && !old(self).reliable(),
            },
            final(self).reliable() == old(self).reliable(),
    {
        self.inner.read(buf)
    }
}

// N9: the error value of the "length not a multiple of four" path is built by an opaque constructor
#[verifier::external_body]
fn length_error() -> (e: std::io::Error) {
    std::io::Error::other("input length is not dividable by 4")
}

// N8: lookups in the constant table BASE64_DECODE are routed through its specification; that the table is the
// value table `dec_val` for all 256 bytes is proved by the Kani harness c14_decode_table_full (complete).
#[verifier::external_body]
fn b64_dec_lookup(c: u8) -> (r: u8)
    ensures r == dec_val(c),
{
    unimplemented!()
}

//@ item struct Base64Decoder

impl Base64Decoder<AnyReader> {
    // decoded bytes waiting in the internal buffer
    pub closed spec fn pending(&self) -> Seq<u8> { self.buffer@.subrange(self.buffer_offset as int, self.buffer_size as int) }
    pub closed spec fn text(&self) -> Seq<u8> { self.read.remaining() }
    pub closed spec fn reliable(&self) -> bool { self.read.reliable() }
    pub closed spec fn wf(&self) -> bool { self.buffer_offset <= self.buffer_size <= 64 }
    pub closed spec fn room(&self) -> bool { self.buffer_size + 3 <= 64 }
    // everything that is still to be delivered: buffered bytes, then the bytes of the unread text
    pub closed spec fn total(&self) -> Seq<u8> { self.pending() + dec_text(self.text()) }

    //@ fn impl<R: Read> Base64Decoder<R> :: decode_u8x4 ret=r
    //@+ ensures r@ == q_bytes(chunk@),
    //@subst N4 array pattern replaced by indexed lets /let \[i0, i1, i2, i3\] = chunk;/let i0 = chunk[0]; let i1 = chunk[1]; let i2 = chunk[2]; let i3 = chunk[3];/
    //@subst N8 BASE64_DECODE[..] lookups routed through the table specification /BASE64_DECODE\[(\w+) as usize\]/b64_dec_lookup(\1)/

    //@ fn impl<R: Read> Base64Decoder<R> :: decode_size ret=r
    //@+ ensures r == q_size(chunk@), 1 <= r <= 3,
    //@subst N4 array pattern replaced by indexed lets /let \[_, _, i2, i3\] = chunk;/let i2 = chunk[2]; let i3 = chunk[3];/

    //@ fn impl<R: Read> Base64Decoder<R> :: buffer ret=r
    //@+ requires self.wf(),
    //@+ ensures r@ == self.pending(),

    //@ fn impl<R: Read> Base64Decoder<R> :: buffer_fill ret=r
    //@+ requires old(self).wf(),
    //@+ ensures
    //@+     final(self).wf(),
    //@+     match r {
    //@+         Ok(_) => {
    //@+             // what is still to be delivered is unchanged: bytes only moved from the text into the buffer
    //@+             &&& final(self).total() =~= old(self).total()
    //@+             // it stops early only because the buffer is full; otherwise the whole text was consumed
    //@+             &&& final(self).room() ==> final(self).text().len() == 0
    //@+             &&& (old(self).pending().len() == 0 && final(self).pending().len() == 0) ==> final(self).room()
    //@+             // and only whole quanta are ever consumed
    //@+             &&& (old(self).text().len() - final(self).text().len()) % 4 == 0
    //@+             &&& final(self).text().len() <= old(self).text().len()
    //@+             &&& all_b64(old(self).text()) ==> all_b64(final(self).text())
    //@+         },
    //@+         // an error is either the reader's, or the text is not a whole number of quanta (tolerated as well: text that is not base64 at all)
    //@+         Err(_) => !old(self).reliable() || old(self).text().len() % 4 != 0 || !all_b64(old(self).text()),
    //@+     },
    //@+     final(self).reliable() == old(self).reliable(),
    //@subst N9 error value built by an opaque constructor /std::io::Error::other\(Error::ParseError\(\s*"Base64Decoder",\s*"input length is not dividable by 4"\.to_owned\(\),\s*\)\)/length_error()/
    //@loop 1 invariant
    //@loop 1     self.buffer_offset <= self.buffer_size <= 64,
    //@loop 1     self.total() =~= old(self).total(),
    //@loop 1     self.reliable() == old(self).reliable(),
    //@loop 1     all_b64(old(self).text()) ==> all_b64(self.text()),
    //@loop 1     old(self).buffer_offset == old(self).buffer_size ==> self.buffer_offset == 0,
    //@loop 1     (old(self).text().len() - self.text().len()) % 4 == 0, self.text().len() <= old(self).text().len(),
    //@loop 1 ensures self.room() ==> self.text().len() == 0,
    //@loop 1 decreases 64 - self.buffer_size,
    //@loop 2 invariant
    //@loop 2     size <= 4, input@.len() == 4,
    //@loop 2     self.buffer_offset <= self.buffer_size <= 64, self.buffer_size + 3 <= 64,
    //@loop 2     self.buffer == loop_start.buffer, self.buffer_offset == loop_start.buffer_offset, self.buffer_size == loop_start.buffer_size,
    //@loop 2     size <= loop_start.text().len(),
    //@loop 2     input@.subrange(0, size as int) =~= loop_start.text().subrange(0, size as int),
    //@loop 2     self.text() =~= loop_start.text().skip(size as int),
    //@loop 2     self.reliable() == old(self).reliable(),
    //@loop 2     all_b64(old(self).text()) ==> all_b64(self.text()),
    //@loop 2 ensures size < 4 ==> self.text().len() == 0,
    //@loop 2 decreases 4 - size,
    //@proof loop1.start let ghost loop_start = *self;
    //@proof loop2.start let ghost rem_before = self.text(); let ghost input_before = input@;
    //@proof after:/let\sread_size\s=/ proof { let t = loop_start.text(); assert(rem_before =~= t.skip(size as int)); assert(input@.subrange(0, size as int) =~= input_before.subrange(0, size as int)); assert(input@.subrange(size as int, size as int + read_size as int) =~= rem_before.subrange(0, read_size as int)); assert(rem_before.subrange(0, read_size as int) =~= t.subrange(size as int, size as int + read_size as int)); assert(input@.subrange(0, size as int + read_size as int) =~= input@.subrange(0, size as int) + input@.subrange(size as int, size as int + read_size as int)); assert(t.subrange(0, size as int + read_size as int) =~= t.subrange(0, size as int) + t.subrange(size as int, size as int + read_size as int)); assert(self.text() =~= t.skip(size as int + read_size as int)); lemma_all_b64_suffix(rem_before, read_size as int); }
    //@proof after:/self\.buffer_size\s\+=\sout_size/ proof { let t = loop_start.text(); assert(input@ =~= t.subrange(0, 4)); assert(dec_text(t) == dec4(t.subrange(0, 4)) + dec_text(t.skip(4))); assert(self.buffer@.subrange(0, loop_start.buffer_size as int) =~= loop_start.buffer@.subrange(0, loop_start.buffer_size as int)); assert(self.pending() =~= loop_start.pending() + dec4(input@)); assert(self.total() =~= loop_start.total()); }
    //@proof before:/if\ssize\s==\s0/ proof { if size == 0 { assert(self.text() =~= loop_start.text()); } }
}

impl Base64Decoder<AnyReader> {
    // N5: `impl Read for Base64Decoder<R>` re-homed as an inherent method (body verbatim)
    //@ fn impl<R: Read> Read for Base64Decoder<R> :: read ret=r
    //@+ requires old(self).wf(),
    //@+ ensures
    //@+     final(self).wf(), final(out)@.len() == old(out)@.len(),
    //@+     match r {
    //@+         Ok(n) => {
    //@+             // the caller receives the next n bytes of what the text denotes, nothing is lost or repeated
    //@+             &&& n <= old(out)@.len() && n <= old(self).total().len()
    //@+             &&& final(out)@.subrange(0, n as int) =~= old(self).total().subrange(0, n as int)
    //@+             &&& final(self).total() =~= old(self).total().skip(n as int)
    //@+             // a short count means end of stream: everything was delivered and only whole quanta were consumed
    //@+             &&& n < old(out)@.len() ==> (final(self).total().len() == 0 && final(self).text().len() == 0)
    //@+             &&& (old(self).text().len() - final(self).text().len()) % 4 == 0
    //@+         },
    //@+         Err(_) => !old(self).reliable() || old(self).text().len() % 4 != 0 || !all_b64(old(self).text()),
    //@+     },
    //@+     final(self).reliable() == old(self).reliable(),
    //@loop 1 invariant
    //@loop 1     self.reliable() == old(self).reliable(),
    //@loop 1     all_b64(old(self).text()) ==> all_b64(self.text()),
    //@loop 1     out_offset <= out@.len(), out@.len() == old(out)@.len(),
    //@loop 1     self.buffer_offset <= self.buffer_size <= 64,
    //@loop 1     out_offset <= old(self).total().len(),
    //@loop 1     out@.subrange(0, out_offset as int) =~= old(self).total().subrange(0, out_offset as int),
    //@loop 1     self.total() =~= old(self).total().skip(out_offset as int),
    //@loop 1     (old(self).text().len() - self.text().len()) % 4 == 0, self.text().len() <= old(self).text().len(),
    //@loop 1 ensures out_offset < out@.len() ==> (self.total().len() == 0 && self.text().len() == 0),
    //@loop 1 decreases out@.len() - out_offset,
    //@proof before:/let\ssize\s=/ let ghost mid = *self; let ghost out_before = out@; let ghost off_before = out_offset;
    //@proof before:/if\sbuffer\.is_empty\(\)/ proof { if buffer@.len() == 0 { assert(dec_text(self.text()) =~= Seq::<u8>::empty()); assert(self.total() =~= Seq::<u8>::empty()); } }
    //@proof after:/self\.buffer_offset\s\+=\ssize/ proof { let tot = old(self).total(); assert(self.pending() =~= mid.pending().skip(size as int)); assert(mid.total().skip(size as int) =~= mid.pending().skip(size as int) + dec_text(mid.text())); assert(self.total() =~= mid.total().skip(size as int)); assert(tot.skip(off_before as int).skip(size as int) =~= tot.skip(off_before as int + size as int)); assert(out@.subrange(0, off_before as int) =~= out_before.subrange(0, off_before as int)); assert(out@.subrange(off_before as int, off_before as int + size as int) =~= mid.pending().subrange(0, size as int)); assert(mid.pending().subrange(0, size as int) =~= mid.total().subrange(0, size as int)); assert(mid.total().subrange(0, size as int) =~= tot.subrange(off_before as int, off_before as int + size as int)); assert(out@.subrange(0, off_before as int + size as int) =~= out@.subrange(0, off_before as int) + out@.subrange(off_before as int, off_before as int + size as int)); assert(tot.subrange(0, off_before as int + size as int) =~= tot.subrange(0, off_before as int) + tot.subrange(off_before as int, off_before as int + size as int)); }
}

} // verus!

fn main() {}
