//@ unit octleaf
//@ props C13
//@ source src/image.rs
#![allow(unused_imports, dead_code, unused_variables, unused_mut)]
use vstd::prelude::*;

verus! {

//@ include std_specs.inc

global size_of usize == 8;   // the crate targets 64-bit unix; accumulator bounds below need the width

// N18: the dependency type rasterize::RGBA is replaced by an opaque stand-in carrying only the contract of the
// constructor and accessor the extracted functions use (four 8-bit channels in, three out).
#[verifier::external_body]
pub struct RGBA { v: [u8; 4] }
impl RGBA {
    pub uninterp spec fn chan(&self) -> (u8, u8, u8, u8);
    #[verifier::external_body]
    pub fn new(r: u8, g: u8, b: u8, a: u8) -> (c: RGBA)
        ensures c.chan() == (r, g, b, a),
    { RGBA { v: [r, g, b, a] } }
    #[verifier::external_body]
    pub fn to_rgb(self) -> (r: [u8; 3])
        ensures r@ == seq![self.chan().0, self.chan().1, self.chan().2],
    { [self.v[0], self.v[1], self.v[2]] }
}

//@ item struct OcTreeLeaf

impl OcTreeLeaf {
    // accumulators are sums of `color_count` bytes
    spec fn wf(&self) -> bool {
        &&& self.red_acc <= 255 * self.color_count
        &&& self.green_acc <= 255 * self.color_count
        &&& self.blue_acc <= 255 * self.color_count
    }

    //@ fn impl OcTreeLeaf :: new ret=r
    //@+ ensures r.wf(), r.color_count == 0,

    //@ fn impl OcTreeLeaf :: from_rgba ret=r
    //@+ ensures r.wf(), r.color_count == 1, r.red_acc == rgba.chan().0, r.green_acc == rgba.chan().1, r.blue_acc == rgba.chan().2,
    //@subst N4 array pattern replaced by indexed lets /let \[r, g, b\] = rgba\.to_rgb\(\);/let rgb_ = rgba.to_rgb(); let r = rgb_[0]; let g = rgb_[1]; let b = rgb_[2];/

    //@ fn impl OcTreeLeaf :: to_rgba ret=c
    //@+ requires self.wf(), self.color_count > 0,
    //@+ ensures
    //@+     c.chan().0 as int == self.red_acc as int / self.color_count as int,
    //@+     c.chan().1 as int == self.green_acc as int / self.color_count as int,
    //@+     c.chan().2 as int == self.blue_acc as int / self.color_count as int,
    //@+     c.chan().3 == 255,
    //@proof start proof { lemma_mean_fits(self.red_acc as int, self.color_count as int); lemma_mean_fits(self.green_acc as int, self.color_count as int); lemma_mean_fits(self.blue_acc as int, self.color_count as int); }

    // N5: `impl AddAssign<RGBA> for OcTreeLeaf` / `impl AddAssign<OcTreeLeaf> for OcTreeLeaf` re-homed
    //@ fn impl AddAssign<RGBA> for OcTreeLeaf :: add_assign as=add_color
    //@+ requires old(self).wf(), old(self).color_count < 0x1_0000_0000_0000,
    //@+ ensures final(self).wf(), final(self).color_count == old(self).color_count + 1,
    //@+     final(self).red_acc == old(self).red_acc + rhs.chan().0, final(self).green_acc == old(self).green_acc + rhs.chan().1, final(self).blue_acc == old(self).blue_acc + rhs.chan().2,
    //@proof start proof { let c0 = old(self).color_count as int; assert(255 * c0 <= 255 * 0x1_0000_0000_0000) by (nonlinear_arith) requires c0 < 0x1_0000_0000_0000; }
    //@subst N4 array pattern replaced by indexed lets /let \[r, g, b\] = rhs\.to_rgb\(\);/let rgb_ = rhs.to_rgb(); let r = rgb_[0]; let g = rgb_[1]; let b = rgb_[2];/

    //@ fn impl AddAssign<OcTreeLeaf> for OcTreeLeaf :: add_assign as=add_leaf
    //@+ requires old(self).wf(), rhs.wf(), old(self).color_count + rhs.color_count < 0x1_0000_0000_0000,
    //@+ ensures final(self).wf(), final(self).color_count == old(self).color_count + rhs.color_count,
    //@proof start proof { let c0 = old(self).color_count as int; let c1 = rhs.color_count as int; assert(255 * c0 + 255 * c1 <= 255 * 0x1_0000_0000_0000) by (nonlinear_arith) requires c0 + c1 < 0x1_0000_0000_0000; assert(255 * (c0 + c1) == 255 * c0 + 255 * c1) by (nonlinear_arith); }
    //@subst N5 `Self` of the dropped trait impl spelled out /rhs: Self/rhs: OcTreeLeaf/
}

proof fn lemma_mean_fits(acc: int, n: int)
    requires 0 <= acc <= 255 * n, n > 0,
    ensures 0 <= acc / n <= 255,
{
    assert(0 <= acc / n <= 255) by (nonlinear_arith) requires 0 <= acc <= 255 * n, n > 0;
}

} // verus!

fn main() {}
