//@ unit utf8stream
//@ props C09 C02
//@ source src/decoder.rs
#![allow(unused_imports, dead_code, unused_variables, unused_mut)]
use vstd::prelude::*;

verus! {

global size_of usize == 8;

#[verifier::external_type_specification]
#[verifier::external_body]
pub struct ExIoError(std::io::Error);

//@ item struct DFAState src=src/automata.rs

// ---------------------------------------------------------------- the compiled UTF-8 automaton, as an abstract DFA
// N18: `static UTF8DFA: LazyLock<DFA<()>>` is replaced by a stand-in whose three operations are specified by
// uninterpreted functions (start state, transition function, accepting set). What the decoder below does is proved for
// EVERY such automaton that accepts within four bytes; that the compiled automaton is the UTF-8 one is C15's subject.
pub uninterp spec fn dfa_start() -> DFAState;
pub uninterp spec fn dfa_delta(s: DFAState, b: u8) -> Option<DFAState>;
pub uninterp spec fn dfa_accepting(s: DFAState) -> bool;
// number of bytes consumed since the start state
pub uninterp spec fn dfa_depth(s: DFAState) -> nat;

// assumed about the automaton: states are layered by the number of bytes read, and a sequence that is still
// incomplete has at most three bytes (UTF-8 encodes a scalar value in at most four)
#[verifier::external_body]
pub proof fn axiom_dfa_depth(s: DFAState, b: u8)
    ensures
        dfa_depth(dfa_start()) == 0,
        dfa_delta(s, b) matches Some(t) ==> dfa_depth(t) == dfa_depth(s) + 1 && (!dfa_accepting(t) ==> dfa_depth(t) <= 3),
{}

pub struct DFAStateInfo { pub is_accepting: bool }
pub struct Utf8Dfa {}
impl Utf8Dfa {
    #[verifier::external_body]
    fn start(&self) -> (r: DFAState) ensures r == dfa_start() { unimplemented!() }
    #[verifier::external_body]
    fn transition(&self, s: DFAState, b: u8) -> (r: Option<DFAState>) ensures r == dfa_delta(s, b) { unimplemented!() }
    #[verifier::external_body]
    fn info(&self, s: DFAState) -> (r: DFAStateInfo) ensures r.is_accepting == dfa_accepting(s) { unimplemented!() }
}
pub const UTF8DFA: Utf8Dfa = Utf8Dfa {};

// utf8_decode (contract proved in unit numdec): here only "a function of the bytes"
pub uninterp spec fn spec_utf8_decode(bytes: Seq<u8>) -> char;
#[verifier::external_body]
fn utf8_decode(bytes: &[u8]) -> (r: char) ensures r == spec_utf8_decode(bytes@) { unimplemented!() }

// N6: the generic source `B: BufRead` is instantiated with the one the io::Write adapters use, `io::Cursor<&[u8]>`,
// specified by its contract: fill_buf lends all remaining bytes, consume(n) advances by n
#[verifier::external_body]
pub struct ByteCursor<'a> { inner: std::io::Cursor<&'a [u8]> }
impl<'a> ByteCursor<'a> {
    pub uninterp spec fn rest(&self) -> Seq<u8>;
    #[verifier::external_body]
    // (Cursor::fill_buf does not change the cursor; the stand-in says so by taking `&self`, which also lets the loop
    // invariant below mention the cursor while the lent slice is alive)
    fn fill_buf(&self) -> (r: Result<&[u8], std::io::Error>)
        ensures r matches Ok(s) && s@ == self.rest(),
    { unimplemented!() }
    #[verifier::external_body]
    fn consume(&mut self, n: usize)
        requires n <= old(self).rest().len(),
        ensures final(self).rest() == old(self).rest().skip(n as int),
    { std::io::BufRead::consume(&mut self.inner, n) }
}

// N9: the error value is built by an opaque constructor
#[verifier::external_body]
fn utf8_error() -> (e: std::io::Error) { std::io::Error::new(std::io::ErrorKind::InvalidInput, "utf8 decoder failed") }

//@ item struct Utf8Decoder

// ---------------------------------------------------------------- specification: the decoder as a byte-wise fold
pub struct DecSt { pub state: DFAState, pub buf: Seq<u8> }
pub enum Out { More, Invalid, Char(char) }

pub open spec fn st_reset() -> DecSt { DecSt { state: dfa_start(), buf: Seq::empty() } }

// one byte
pub open spec fn step(st: DecSt, b: u8) -> (DecSt, Out) {
    match dfa_delta(st.state, b) {
        None => (st_reset(), Out::Invalid),
        Some(t) => if dfa_accepting(t) { (st_reset(), Out::Char(spec_utf8_decode(st.buf.push(b)))) }
                   else { (DecSt { state: t, buf: st.buf.push(b) }, Out::More) },
    }
}

// bytes up to and including the first one that produces something: (state after, bytes consumed, what was produced)
pub open spec fn run(st: DecSt, bytes: Seq<u8>) -> (DecSt, nat, Out)
    decreases bytes.len(),
{
    if bytes.len() == 0 { (st, 0, Out::More) } else {
        let (s1, o) = step(st, bytes[0]);
        if o is More { let (s2, n, o2) = run(s1, bytes.skip(1)); (s2, n + 1, o2) } else { (s1, 1, o) }
    }
}

// chunk independence, part 1: a chunk that produced nothing leaves a state from which the next chunk continues
// exactly as if the two had been one buffer
pub proof fn lemma_run_concat_more(st: DecSt, a: Seq<u8>, b: Seq<u8>)
    requires run(st, a).2 is More,
    ensures
        run(st, a).1 == a.len(),
        run(st, a + b) == (run(run(st, a).0, b).0, a.len() + run(run(st, a).0, b).1, run(run(st, a).0, b).2),
    decreases a.len(),
{
    if a.len() == 0 {
        assert(a + b =~= b);
    } else {
        let (s1, o) = step(st, a[0]);
        assert((a + b)[0] == a[0]);
        assert((a + b).skip(1) =~= a.skip(1) + b);
        lemma_run_concat_more(s1, a.skip(1), b);
    }
}

// chunk independence, part 2: what a chunk produced does not depend on the bytes that follow it
pub proof fn lemma_run_concat_out(st: DecSt, a: Seq<u8>, b: Seq<u8>)
    requires !(run(st, a).2 is More),
    ensures run(st, a + b) == run(st, a),
    decreases a.len(),
{
    if a.len() > 0 {
        let (s1, o) = step(st, a[0]);
        assert((a + b)[0] == a[0]);
        assert((a + b).skip(1) =~= a.skip(1) + b);
        if o is More { lemma_run_concat_out(s1, a.skip(1), b); }
    }
}

impl Utf8Decoder {
    pub closed spec fn view_st(&self) -> DecSt { DecSt { state: self.state, buf: self.buffer@.subrange(0, self.offset as int) } }
    pub closed spec fn wf(&self) -> bool { self.offset <= 3 && self.offset == dfa_depth(self.state) }

    //@ fn impl Utf8Decoder :: new ret=r
    //@+ ensures r.wf(), r.view_st().state == dfa_start(), r.view_st().buf =~= Seq::<u8>::empty(),
    //@proof start proof { axiom_dfa_depth(dfa_start(), 0u8); }

    //@ fn impl Utf8Decoder :: reset
    //@+ ensures final(self).wf(), final(self).view_st().state == dfa_start(), final(self).view_st().buf =~= Seq::<u8>::empty(),
    //@proof start proof { axiom_dfa_depth(dfa_start(), 0u8); }

    //@ fn impl Utf8Decoder :: push
    //@+ requires old(self).offset < 4,
    //@+ ensures final(self).state == old(self).state, final(self).offset == old(self).offset + 1,
    //@+     final(self).buffer@.subrange(0, final(self).offset as int) == old(self).buffer@.subrange(0, old(self).offset as int).push(byte),

    //@ fn impl Utf8Decoder :: consume ret=r
    //@+ requires old(self).offset <= 4,
    //@+ ensures r == spec_utf8_decode(old(self).buffer@.subrange(0, old(self).offset as int)), final(self).wf(), final(self).view_st().state == dfa_start(), final(self).view_st().buf =~= Seq::<u8>::empty(),
    //@subst N13 sub-slice of the buffer array made explicit /utf8_decode\(&self\.buffer\[\.\.self\.offset\]\)/utf8_decode(slice_to(&self.buffer, self.offset))/

    //@ fn impl Decoder for Utf8Decoder :: decode ret=r
    //@+ requires old(self).wf(),
    //@+ ensures
    //@+     final(self).wf(),
    //@+     // the call is the byte-wise fold `run` over everything the cursor still holds: it stops after the first byte that
    //@+     // completes a character or is invalid, leaves the decoder in the fold's state, and consumes exactly those bytes
    //@+     final(self).view_st() == run(old(self).view_st(), old(buf).rest()).0,
    //@+     final(buf).rest() == old(buf).rest().skip(run(old(self).view_st(), old(buf).rest()).1 as int),
    //@+     match run(old(self).view_st(), old(buf).rest()).2 { Out::More => r matches Ok(None), Out::Invalid => r is Err, Out::Char(c) => r matches Ok(Some(x)) && x == c },
    //@subst N13 the temporary slice lent by fill_buf is given a name /for byte in( \w+:)? buf\.fill_buf\(\)\?\.iter\(\)/let chunk = buf.fill_buf()?; for byte in\1 chunk.iter()/
    //@forit 1 it
    //@proof start let ghost st0 = old(self).view_st(); let ghost all = old(buf).rest();
    //@proof before:/for\sbyte\sin/ proof { assert(all.skip(0) =~= all); }
    //@loop 1 invariant
    //@loop 1     st0 == old(self).view_st(), all == old(buf).rest(),
    //@loop 1     self.wf(), chunk@ == all, buf.rest() == all, chunk@.len() == chunk.len(), consume == it.index@, it.index@ <= all.len(),
    //@loop 1     run(st0, all) == (run(self.view_st(), all.skip(it.index@ as int)).0, run(self.view_st(), all.skip(it.index@ as int)).1 + it.index@ as nat, run(self.view_st(), all.skip(it.index@ as int)).2),
    //@proof loop1.start let ghost cur = self.view_st(); let ghost i = it.index@ as int; proof { axiom_dfa_depth(self.state, *byte); assert(it.index@ < all.len()); assert(*byte == all[it.index@ as int]); assert(all.skip(it.index@ as int)[0] == all[it.index@ as int]); assert(all.skip(it.index@ as int).skip(1) =~= all.skip(it.index@ as int + 1)); }
    //@proof before:/buf\.consume\(consume\);\s*Ok\(None\)/ proof { assert(consume == all.len()); assert(buf.rest() == all); }
    //@proof after:/self\.state\s=\sstate;/ proof { assert(!dfa_accepting(state)); assert(self.offset == dfa_depth(state)); assert(self.offset <= 3); }
    //@proof before:/return\sErr/ proof { assert(self.view_st() =~~= st_reset()); }
    //@subst N6 generic `B: BufRead` instantiated with the cursor stand-in /fn decode<B: BufRead>\(&mut self, mut buf: B\)/fn decode(&mut self, buf: &mut ByteCursor)/
    //@subst N5 associated types of the dropped trait impl spelled out /Result<Option<Self::Item>, Self::Error>/Result<Option<char>, std::io::Error>/
    //@subst N9 error value built by an opaque constructor /use std::io::\{Error, ErrorKind\};//
    //@subst N9 error value built by an opaque constructor /Error::new\(ErrorKind::InvalidInput, "utf8 decoder failed"\)/utf8_error()/
}

#[verifier::external_body]
fn slice_to<'a>(a: &'a [u8; 4], n: usize) -> (r: &'a [u8])
    requires n <= 4,
    ensures r@ == a@.subrange(0, n as int),
{ &a[..n] }

} // verus!

fn main() {}
