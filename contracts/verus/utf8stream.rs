//@ unit utf8stream
//@ props C09 C02
//@ source src/decoder.rs
#![allow(unused_imports, dead_code, unused_variables, unused_mut)]
use vstd::prelude::*;

verus! {

global size_of usize == 8;

//@ include utf8_model.inc

} // verus!

fn main() {}
