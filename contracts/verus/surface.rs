//@ unit surface
//@ props C07 C10
//@ source src/surface.rs
#![allow(unused_imports, dead_code, unused_variables, unused_mut)]
use vstd::prelude::*;

verus! {

//@ include std_specs.inc

// ---------------------------------------------------------------- trusted prelude
pub assume_specification<T>[ bool::then_some ](b: bool, t: T) -> (r: Option<T>)
    ensures r == (if b { Some(t) } else { None::<T> });

// <[T]>::get_mut: the element at the index (borrowed out of the slice) or None past the end
// (N8: `<[T]>::get_mut` is generic over SliceIndex, which assume_specification cannot name; calls are routed through this wrapper)
#[verifier::external_body]
fn slice_get_mut<T>(s: &mut [T], i: usize) -> (r: Option<&mut T>)
    ensures
        i >= old(s)@.len() ==> r is None && final(s)@ == old(s)@,
        i < old(s)@.len() ==> (r matches Some(p) && *p == old(s)@[i as int] && final(s)@ == old(s)@.update(i as int, *final(p))),
{ s.get_mut(i) }

pub assume_specification<T>[ std::mem::replace ](dest: &mut T, src: T) -> (r: T)
    ensures r == *old(dest), *final(dest) == src;

//@ include surface_model.inc

// the sub-window selected by row/col bounds on a window
pub open spec fn sub_win(win: Win, row_start: nat, row_end: nat, col_start: nat, col_end: nat) -> Win {
    if win.t {
        Win { r0: win.r0 + col_start, c0: win.c0 + row_start, h: (row_end - row_start) as nat, w: (col_end - col_start) as nat, ..win }
    } else {
        Win { r0: win.r0 + row_start, c0: win.c0 + col_start, h: (row_end - row_start) as nat, w: (col_end - col_start) as nat, ..win }
    }
}
pub open spec fn empty_win(win: Win) -> Win { Win { h: 0, w: 0, ..win } }
pub open spec fn transposed(win: Win) -> Win { Win { h: win.w, w: win.h, t: !win.t, ..win } }

// a position of the sub-window is the same root cell as the shifted position of the parent window
proof fn lemma_sub_win_cells(win: Win, rs: nat, re: nat, cs: nat, ce: nat, i: nat, j: nat)
    requires rs < re <= win.h, cs < ce <= win.w, i < re - rs, j < ce - cs,
    ensures root_index(sub_win(win, rs, re, cs, ce), i, j) == root_index(win, rs + i, cs + j),
{
}

// ---------------------------------------------------------------- ViewBounds (trait contract; discharged per impl by C08)
//@ item trait ViewBounds
//@subst N15 trait method given its contract (result named, spec twin `spec_bounds` added) /fn view_bounds\(self, size: usize\) -> Option<\(usize, usize\)>;/spec fn spec_bounds(self, size: usize) -> Option<(usize, usize)>; fn view_bounds(self, size: usize) -> (r: Option<(usize, usize)>) ensures r == self.spec_bounds(size), r matches Some(p) ==> p.0 < p.1 && p.1 <= size;/

pub open spec fn view_win(win: Win, rb: Option<(usize, usize)>, cb: Option<(usize, usize)>) -> Win {
    match (cb, rb) {
        (Some(c), Some(r)) => sub_win(win, r.0 as nat, r.1 as nat, c.0 as nat, c.1 as nat),
        _ => empty_win(win),
    }
}

// the arithmetic of Shape::view: the recomputed start/end describe the sub-window
proof fn lemma_view_rep(s: Shape, win: Win, n: nat, rs: usize, re: usize, cs: usize, ce: usize, r: Shape)
    requires
        rep(s, win, n), rs < re <= s.height, cs < ce <= s.width,
        r.width == ce - cs, r.height == re - rs, r.row_stride == s.row_stride, r.col_stride == s.col_stride,
        r.start == spec_offset(s, Position { row: rs, col: cs }),
        r.end == spec_offset(s, Position { row: (re - 1) as usize, col: ce }),
    ensures rep(r, sub_win(win, rs as nat, re as nat, cs as nat, ce as nat), n),
{
    let sw = sub_win(win, rs as nat, re as nat, cs as nat, ce as nat);
    lemma_offset(s, win, n, Position { row: rs, col: cs });
    assert(r.end - r.start == (re - 1 - rs) * s.row_stride + (ce - cs) * s.col_stride) by (nonlinear_arith)
        requires
            r.start == s.start + rs * s.row_stride + cs * s.col_stride,
            r.end == s.start + (re - 1) * s.row_stride + ce * s.col_stride;
    assert(win.rw >= 1) by (nonlinear_arith) requires win.c0 + win.w <= win.rw || win.c0 + win.h <= win.rw, win.w > 0, win.h > 0;
    assert((re - 1 - rs) * s.row_stride + (ce - cs) * s.col_stride >= 1) by (nonlinear_arith)
        requires re - 1 - rs >= 0, ce - cs >= 1, s.row_stride >= 1, s.col_stride >= 1;
    if win.t {
        assert(r.start == (win.r0 + cs) * win.rw + (win.c0 + rs)) by (nonlinear_arith)
            requires r.start == s.start + rs * s.row_stride + cs * s.col_stride, s.start == win.r0 * win.rw + win.c0, s.row_stride == 1, s.col_stride == win.rw;
    } else {
        assert(r.start == (win.r0 + rs) * win.rw + (win.c0 + cs)) by (nonlinear_arith)
            requires r.start == s.start + rs * s.row_stride + cs * s.col_stride, s.start == win.r0 * win.rw + win.c0, s.row_stride == win.rw, s.col_stride == 1;
    }
}

// `end` of a sub-view does not overflow
proof fn lemma_view_end(s: Shape, win: Win, n: nat, re: usize, ce: usize)
    requires rep(s, win, n), 0 < re <= s.height, 0 < ce <= s.width,
    ensures spec_offset(s, Position { row: (re - 1) as usize, col: ce }) <= usize::MAX,
{
    assert(win.rw >= 1) by (nonlinear_arith) requires win.c0 + win.w <= win.rw || win.c0 + win.h <= win.rw, win.w > 0, win.h > 0;
    if win.t {
        assert(s.start + (re - 1) * 1 + ce * win.rw <= win.rh * win.rw + win.rw) by (nonlinear_arith)
            requires s.start == win.r0 * win.rw + win.c0, win.r0 + win.w <= win.rh, win.c0 + win.h <= win.rw, re <= win.h, ce <= win.w, re >= 1;
    } else {
        assert(s.start + (re - 1) * win.rw + ce * 1 <= win.rh * win.rw + win.rw) by (nonlinear_arith)
            requires s.start == win.r0 * win.rw + win.c0, win.r0 + win.h <= win.rh, win.c0 + win.w <= win.rw, re <= win.h, ce <= win.w, re >= 1;
    }
    assert(win.rh >= 1);
    assert(win.rw <= win.rh * win.rw) by (nonlinear_arith) requires win.rh >= 1, win.rw >= 1;
}

impl Shape {
    //@ fn impl Shape :: offset ret=r
    //@+ requires spec_offset(*self, pos) <= usize::MAX,
    //@+ ensures r == spec_offset(*self, pos),
    //@proof start proof { assert(pos.row * self.row_stride >= 0 && pos.col * self.col_stride >= 0) by (nonlinear_arith); }

    //@ fn impl Shape :: index ret=r
    //@+ requires pos.row * self.width + pos.col <= usize::MAX,
    //@+ ensures r == pos.row * self.width + pos.col,
    //@proof start proof { assert(pos.row * self.width >= 0) by (nonlinear_arith); }

    //@ fn impl Shape :: nth ret=r
    //@+ ensures
    //@+     n < self.height * self.width ==> r == Some(Position { row: n / self.width, col: n % self.width }),
    //@+     n < self.height * self.width ==> (r->Some_0.row < self.height && r->Some_0.col < self.width && r->Some_0.row * self.width + r->Some_0.col == n),
    //@+     n >= self.height * self.width ==> r is None,
    //@proof before:/let\srow\s=/ proof { lemma_divmod(n as int, self.width as int, self.height as int); }

    //@ fn impl Shape :: size ret=r
    //@+ ensures r.width == self.width, r.height == self.height,

    //@ fn impl Shape :: view ret=r
    //@+ requires exists|win: Win, n: nat| rep(self, win, n),
    //@+ ensures
    //@+     forall|win: Win, n: nat| rep(self, win, n) ==> rep(r, view_win(win, rows.spec_bounds(self.height), cols.spec_bounds(self.width)), n),
    //@proof after:/let\sheight\s=/ proof { let (w0, n0) = choose|win: Win, n: nat| rep(self, win, n); lemma_offset(self, w0, n0, Position { row: row_start, col: col_start }); lemma_view_end(self, w0, n0, row_end, col_end); }
    //@proof after:/let\send\s=/ proof { assert forall|win: Win, n: nat| rep(self, win, n) implies rep(Shape { width, height, start, end, ..self }, sub_win(win, row_start as nat, row_end as nat, col_start as nat, col_end as nat), n) by { lemma_view_rep(self, win, n, row_start, row_end, col_start, col_end, Shape { width, height, start, end, ..self }); } }
}

pub open spec fn full_win(h: nat, w: nat) -> Win { Win { rh: h, rw: w, r0: 0, c0: 0, h: h, w: w, t: false } }

impl Shape {
    // N5: `impl From<Size> for Shape` re-homed as an inherent constructor
    //@ fn impl From<Size> for Shape :: from as=from_size ret=r
    //@+ requires size.height * size.width <= isize::MAX,
    //@+ ensures forall|n: nat| size.height * size.width <= n <= isize::MAX ==> rep(r, full_win(size.height as nat, size.width as nat), n),
    //@proof start proof { assert(size.height * size.width >= 0) by (nonlinear_arith); assert((size.height == 0 || size.width == 0) <==> size.height * size.width == 0) by (nonlinear_arith); }
}

//@ item struct SurfaceIter
//@ item struct SurfaceMutIter
//@ item struct SurfaceView
//@ item struct SurfaceOwnedView

// ghost accessors for private fields (specs only; no field visibility is changed)
impl<'a, T> SurfaceIter<'a, T> {
    pub closed spec fn g_index(&self) -> usize { self.index }
    pub closed spec fn g_shape(&self) -> Shape { self.shape }
    pub closed spec fn g_data(&self) -> Seq<T> { self.data@ }
}
impl<'a, T> SurfaceView<'a, T> {
    pub closed spec fn g_shape(&self) -> Shape { self.shape }
    pub closed spec fn g_data(&self) -> Seq<T> { self.data@ }
}
impl<S> SurfaceOwnedView<S> {
    pub closed spec fn g_shape(&self) -> Shape { self.shape }
    pub closed spec fn g_inner(&self) -> S { self.inner }
}

// ---------------------------------------------------------------- Surface trait: defaults verified against the window model
pub trait Surface {
    type Item;

    // ghost twins of the two required methods, and the window the surface denotes
    spec fn spec_shape(&self) -> Shape;
    spec fn spec_data(&self) -> Seq<Self::Item>;
    spec fn win(&self) -> Win;

    // required methods (signatures as in /repo; bodies live in the impls) with their ghost twins as contract
    fn shape(&self) -> (r: Shape)
        ensures r == self.spec_shape();
    fn data(&self) -> (r: &[Self::Item])
        ensures r@ == self.spec_data();

    // surface invariant used below: rep(self.spec_shape(), self.win(), self.spec_data().len())
    //   "the shape is a window of the backing slice"

    //@ fn trait Surface :: is_empty ret=r
    //@+ requires rep(self.spec_shape(), self.win(), self.spec_data().len()),
    //@+ ensures r == (self.win().h == 0 || self.win().w == 0),

    //@ fn trait Surface :: height ret=r
    //@+ ensures r == self.spec_shape().height,

    //@ fn trait Surface :: width ret=r
    //@+ ensures r == self.spec_shape().width,

    //@ fn trait Surface :: size ret=r
    //@+ ensures r.height == self.spec_shape().height, r.width == self.spec_shape().width,

    //@ fn trait Surface :: get ret=r
    //@+ requires rep(self.spec_shape(), self.win(), self.spec_data().len()),
    //@+ ensures
    //@+     in_win(self.win(), pos) ==> r == Some(&self.spec_data()[spec_offset(self.spec_shape(), pos)]),
    //@+     !in_win(self.win(), pos) ==> r is None,
    //@proof start proof { if in_win(self.win(), pos) { lemma_offset(self.spec_shape(), self.win(), self.spec_data().len(), pos); } }

    //@ fn trait Surface :: iter ret=r
    //@+ ensures r.g_index() == 0, r.g_shape() == self.spec_shape(), r.g_data() == self.spec_data(),

    //@ fn trait Surface :: view ret=r
    //@+ requires rep(self.spec_shape(), self.win(), self.spec_data().len()),
    //@+ ensures
    //@+     r.g_data() == self.spec_data(),
    //@+     rep(r.g_shape(), view_win(self.win(), rows.spec_bounds(self.spec_shape().height), cols.spec_bounds(self.spec_shape().width)), self.spec_data().len()),

    //@ fn trait Surface :: as_ref ret=r
    //@+ ensures r.g_data() == self.spec_data(), r.g_shape() == self.spec_shape(),

    //@ fn trait Surface :: view_owned ret=r
    //@+ requires rep(self.spec_shape(), self.win(), self.spec_data().len()),
    //@+ ensures
    //@+     r.g_inner() == self,
    //@+     rep(r.g_shape(), view_win(self.win(), rows.spec_bounds(self.spec_shape().height), cols.spec_bounds(self.spec_shape().width)), self.spec_data().len()),

    //@ fn trait Surface :: transpose ret=r
    //@+ requires rep(self.spec_shape(), self.win(), self.spec_data().len()),
    //@+ ensures
    //@+     r.g_inner() == self,
    //@+     rep(r.g_shape(), transposed(self.win()), self.spec_data().len()),
    //@subst? N5 `Shape::from(..)` routed to the re-homed `impl From<Size> for Shape` /Shape::from\(/Shape::from_size(/

    //@ fn trait Surface :: to_owned_surf ret=r
    //@+ requires
    //@+     rep(self.spec_shape(), self.win(), self.spec_data().len()),
    //@+     self.spec_shape().height * self.spec_shape().width <= isize::MAX,
    //@+ ensures
    //@+     // a fresh owned surface of the window's size; only in-window cells are read (every index is in range)
    //@+     r.g_data().len() == self.spec_shape().height * self.spec_shape().width,
    //@+     rep(r.g_shape(), full_win(self.spec_shape().height as nat, self.spec_shape().width as nat), r.g_data().len()),
    //@subst N11 closure annotated with the precondition under which new_with calls it (in-window positions) /\|pos\| data\[shape\.offset\(pos\)\]\.clone\(\)/|pos: Position| -> (t: Self::Item) requires pos.row < shape.height && pos.col < shape.width, rep(shape, self.win(), data@.len()) { proof { lemma_offset(shape, self.win(), data@.len(), pos); } data[shape.offset(pos)].clone() }/
    // (Surface::map has the same shape but its closure captures the caller's `mut f`: "closures capturing a mutable reference" are not supported)
}

// a window has at most as many cells as its root matrix, which fits the buffer: far below usize::MAX
proof fn lemma_window_fits(s: Shape, win: Win, n: nat)
    requires rep(s, win, n),
    ensures s.height * s.width <= n, s.height * s.width <= isize::MAX,
{
    if win.h > 0 && win.w > 0 {
        if win.t {
            assert(win.h * win.w <= win.rw * win.rh) by (nonlinear_arith) requires win.h <= win.rw, win.w <= win.rh;
            assert(win.rw * win.rh == win.rh * win.rw) by (nonlinear_arith);
        } else {
            assert(win.h * win.w <= win.rh * win.rw) by (nonlinear_arith) requires win.h <= win.rh, win.w <= win.rw;
        }
    } else {
        assert(win.h * win.w == 0) by (nonlinear_arith) requires win.h == 0 || win.w == 0;
    }
}

// N5: `impl Iterator for SurfaceIter` re-homed as inherent methods (bodies verbatim)
impl<'a, T> SurfaceIter<'a, T> {
    //@ fn impl<'a, T: 'a> Iterator for SurfaceIter<'a, T> :: nth ret=r
    //@+ requires
    //@+     exists|win: Win| rep(old(self).shape, win, old(self).data@.len()),
    //@+ ensures
    //@+     // (any n, also usize::MAX: the position saturates and the iterator stays exhausted)
    //@+     final(self).index == (if old(self).index + n + 1 > usize::MAX { usize::MAX as int } else { old(self).index + n + 1 }),
    //@+     final(self).shape == old(self).shape, final(self).data == old(self).data,
    //@+     ({ let k = old(self).index + n; let s = old(self).shape;
    //@+        &&& k < s.height * s.width ==> r == Some(&old(self).data@[spec_offset(s, Position { row: (k / s.width as int) as usize, col: (k % s.width as int) as usize })])
    //@+        &&& k >= s.height * s.width ==> r is None }),
    //@subst N5 associated type of the dropped trait impl spelled out /Self::Item/&'a T/
    //@proof after:/let\spos\s=/ proof { let w0 = choose|win: Win| rep(old(self).shape, win, old(self).data@.len()); lemma_offset(self.shape, w0, self.data@.len(), pos); }
    //@proof start proof { let w0 = choose|win: Win| rep(old(self).shape, win, old(self).data@.len()); lemma_window_fits(old(self).shape, w0, old(self).data@.len()); }

    //@ fn impl<'a, T> SurfaceIter<'a, T> :: position ret=r vis=strip
    //@+ ensures
    //@+     // position of the element that will be yielded next: row-major, and (height, 0) once the iterator is exhausted
    //@+     self.index < self.shape.height * self.shape.width ==> r == pos_of(self.shape, self.index as int),
    //@+     self.index >= self.shape.height * self.shape.width ==> r == (Position { row: self.shape.height, col: 0 }),
    //@subst N11 closure annotated with its own body as ensures clause /\|\| Position::new\(self\.shape\.height, 0\)/|| -> (p: Position) ensures p == (Position { row: self.shape.height, col: 0 }) { Position::new(self.shape.height, 0) }/

    //@ fn impl<'a, T: 'a> Iterator for SurfaceIter<'a, T> :: next ret=r
    //@subst N5 associated type of the dropped trait impl spelled out /Self::Item/&'a T/
    //@+ requires
    //@+     exists|win: Win| rep(old(self).shape, win, old(self).data@.len()),
    //@+ ensures
    //@+     final(self).index == (if old(self).index + 1 > usize::MAX { usize::MAX as int } else { old(self).index + 1 }),
    //@+     final(self).shape == old(self).shape, final(self).data == old(self).data,
    //@+     ({ let k = old(self).index as int; let s = old(self).shape;
    //@+        &&& k < s.height * s.width ==> r == Some(&old(self).data@[spec_offset(s, Position { row: (k / s.width as int) as usize, col: (k % s.width as int) as usize })])
    //@+        &&& k >= s.height * s.width ==> r is None }),
}

// position of the k-th element in row-major order
pub open spec fn pos_of(s: Shape, k: int) -> Position {
    Position { row: (k / s.width as int) as usize, col: (k % s.width as int) as usize }
}

// the safety argument behind the `unsafe` in SurfaceMutIter::nth: two different iteration indices never
// denote the same element, so the iterator (whose index only grows) never hands out a location twice
proof fn lemma_iter_offsets_distinct(s: Shape, win: Win, n: nat, k1: int, k2: int)
    requires rep(s, win, n), 0 <= k1 < k2 < s.height * s.width,
    ensures
        in_win(win, pos_of(s, k1)), in_win(win, pos_of(s, k2)),
        spec_offset(s, pos_of(s, k1)) != spec_offset(s, pos_of(s, k2)),
{
    assert(s.width > 0) by (nonlinear_arith) requires 0 < s.height * s.width, s.height >= 0, s.width >= 0;
    lemma_divmod(k1, s.width as int, s.height as int);
    lemma_divmod(k2, s.width as int, s.height as int);
    let p1 = pos_of(s, k1);
    let p2 = pos_of(s, k2);
    if spec_offset(s, p1) == spec_offset(s, p2) {
        lemma_injective(s, win, n, p1, p2);
        assert(k1 == (k1 / s.width as int) * s.width + k1 % s.width as int);
        assert(k2 == (k2 / s.width as int) * s.width + k2 % s.width as int);
        assert(false);
    }
}

// N8: `let ptr = self.data.as_mut_ptr(); unsafe { &mut *ptr.add(offset) }` is replaced by this call; its
// precondition is the safety condition of the pointer arithmetic (the dereference itself is trusted).
#[verifier::external_body]
fn slice_item_mut_unchecked<'a, T>(data: &mut &'a mut [T], offset: usize) -> (r: &'a mut T)
    requires offset < old(data)@.len(),
    ensures final(data)@.len() == old(data)@.len(),
{
    let ptr = data.as_mut_ptr();
    unsafe { &mut *ptr.add(offset) }
}

impl<'a, T> SurfaceMutIter<'a, T> {
    pub closed spec fn g_index(&self) -> usize { self.index }
    pub closed spec fn g_shape(&self) -> Shape { self.shape }
    pub closed spec fn g_data(&self) -> Seq<T> { self.data@ }

    //@ fn impl<'a, T: 'a> Iterator for SurfaceMutIter<'a, T> :: nth ret=r
    //@+ requires
    //@+     exists|win: Win| rep(old(self).shape, win, old(self).data@.len()),
    //@+ ensures
    //@+     // (any n, also usize::MAX: the position saturates and the iterator stays exhausted)
    //@+     final(self).index == (if old(self).index + n + 1 > usize::MAX { usize::MAX as int } else { old(self).index + n + 1 }),
    //@+     final(self).shape == old(self).shape, final(self).data@.len() == old(self).data@.len(),
    //@+     ({ let k = old(self).index + n; let s = old(self).shape;
    //@+        &&& k < s.height * s.width ==> r is Some
    //@+        &&& k >= s.height * s.width ==> r is None }),
    //@subst N5 associated type of the dropped trait impl spelled out /Self::Item/&'a mut T/
    //@proof start proof { let w0 = choose|win: Win| rep(old(self).shape, win, old(self).data@.len()); lemma_window_fits(old(self).shape, w0, old(self).data@.len()); }
    //@subst N8 raw-pointer element access replaced by a call whose precondition is the safety condition /let ptr = self\.data\.as_mut_ptr\(\);\s*let item = unsafe \{ &mut \*ptr\.add\(offset\) \};/let item = slice_item_mut_unchecked(&mut self.data, offset);/
    //@proof after:/let\spos\s=/ proof { let w0 = choose|win: Win| rep(old(self).shape, win, old(self).data@.len()); lemma_offset(self.shape, w0, self.data@.len(), pos); }
}

// ---------------------------------------------------------------- the base case: an owned surface satisfies the invariant
//@ item struct SurfaceOwned
//@subst N1 derive(Clone) dropped (T is an arbitrary item type) /#\[derive\(Clone\)\]//
impl<T> SurfaceOwned<T> {
    pub closed spec fn g_shape(&self) -> Shape { self.shape }
    pub closed spec fn g_data(&self) -> Seq<T> { self.data@ }

    //@ fn impl<T> SurfaceOwned<T> :: new_with ret=r
    //@+ requires
    //@+     size.height * size.width <= isize::MAX,
    //@+     forall|p: Position| p.row < size.height && p.col < size.width ==> #[trigger] f.requires((p,)),
    //@+ ensures
    //@+     r.g_data().len() == size.height * size.width,
    //@+     rep(r.g_shape(), full_win(size.height as nat, size.width as nat), r.g_data().len()),
    //@subst N5 `Shape::from(size)` routed to the re-homed `impl From<Size> for Shape` /Shape::from\(size\)/Shape::from_size(size)/
    //@loop 1 invariant
    //@loop 1     data@.len() == row * size.width, size.height * size.width <= isize::MAX, forall|p: Position| p.row < size.height && p.col < size.width ==> #[trigger] f.requires((p,)),
    //@loop 2 invariant
    //@loop 2     data@.len() == row * size.width + col, row < size.height, size.height * size.width <= isize::MAX, forall|p: Position| p.row < size.height && p.col < size.width ==> #[trigger] f.requires((p,)),
    //@proof before:/for\srow\sin/ proof { assert(0 * size.width == 0) by (nonlinear_arith); }
    //@proof loop1.end proof { assert((row + 1) * size.width == row * size.width + size.width) by (nonlinear_arith); }
}

// ---------------------------------------------------------------- SurfaceMut: writes stay inside the window (frame)
pub trait SurfaceMut: Surface {
    fn data_mut(&mut self) -> (r: &mut [Self::Item])
        ensures
            r@ == old(self).spec_data(),
            final(self).spec_data() == final(r)@,
            final(self).spec_shape() == old(self).spec_shape(),
            final(self).win() == old(self).win();

    //@ fn trait SurfaceMut: Surface :: fill
    //@+ requires rep(old(self).spec_shape(), old(self).win(), old(self).spec_data().len()),
    //@+ ensures
    //@+     final(self).spec_shape() == old(self).spec_shape(), final(self).win() == old(self).win(),
    //@+     frame(old(self).spec_shape(), old(self).win(), old(self).spec_data(), final(self).spec_data()),
    //@loop 1 invariant
    //@loop 1     shape == old(self).spec_shape(),
    //@loop 1     rep(shape, old(self).win(), data@.len()),
    //@loop 1     frame(shape, old(self).win(), old(self).spec_data(), data@),
    //@loop 2 invariant
    //@loop 2     shape == old(self).spec_shape(), row < shape.height,
    //@loop 2     rep(shape, old(self).win(), data@.len()),
    //@loop 2     frame(shape, old(self).win(), old(self).spec_data(), data@),
    //@proof loop2.start proof { let p = Position { row, col }; lemma_offset(shape, old(self).win(), data@.len(), p); assert(is_win_offset(shape, old(self).win(), spec_offset(shape, p))); }

    //@ fn trait SurfaceMut: Surface :: fill_with
    //@+ requires
    //@+     rep(old(self).spec_shape(), old(self).win(), old(self).spec_data().len()),
    //@+     forall|p: Position, it: Self::Item| fill.requires((p, it)),
    //@+ ensures
    //@+     final(self).spec_shape() == old(self).spec_shape(), final(self).win() == old(self).win(),
    //@+     frame(old(self).spec_shape(), old(self).win(), old(self).spec_data(), final(self).spec_data()),
    //@loop 1 invariant
    //@loop 1     shape == old(self).spec_shape(), forall|p: Position, it: Self::Item| fill.requires((p, it)),
    //@loop 1     rep(shape, old(self).win(), data@.len()),
    //@loop 1     frame(shape, old(self).win(), old(self).spec_data(), data@),
    //@loop 2 invariant
    //@loop 2     shape == old(self).spec_shape(), row < shape.height, forall|p: Position, it: Self::Item| fill.requires((p, it)),
    //@loop 2     rep(shape, old(self).win(), data@.len()),
    //@loop 2     frame(shape, old(self).win(), old(self).spec_data(), data@),
    //@proof loop2.start proof { let p = Position { row, col }; lemma_offset(shape, old(self).win(), data@.len(), p); assert(is_win_offset(shape, old(self).win(), spec_offset(shape, p))); }

    //@ fn trait SurfaceMut: Surface :: view_mut ret=r
    //@+ requires rep(old(self).spec_shape(), old(self).win(), old(self).spec_data().len()),
    //@+ ensures
    //@+     r.g_data() == old(self).spec_data(),
    //@+     rep(r.g_shape(), view_win(old(self).win(), rows.spec_bounds(old(self).spec_shape().height), cols.spec_bounds(old(self).spec_shape().width)), old(self).spec_data().len()),

    //@ fn trait SurfaceMut: Surface :: as_mut ret=r
    //@+ ensures r.g_data() == old(self).spec_data(), r.g_shape() == old(self).spec_shape(),

    //@ fn trait SurfaceMut: Surface :: iter_mut ret=r
    //@+ ensures r.g_index() == 0, r.g_shape() == old(self).spec_shape(), r.g_data() == old(self).spec_data(),

    //@ fn trait SurfaceMut: Surface :: clear
    //@+ requires rep(old(self).spec_shape(), old(self).win(), old(self).spec_data().len()),
    //@+ ensures
    //@+     final(self).spec_shape() == old(self).spec_shape(), final(self).win() == old(self).win(),
    //@+     frame(old(self).spec_shape(), old(self).win(), old(self).spec_data(), final(self).spec_data()),
    //@loop 1 invariant
    //@loop 1     shape == old(self).spec_shape(),
    //@loop 1     rep(shape, old(self).win(), data@.len()),
    //@loop 1     frame(shape, old(self).win(), old(self).spec_data(), data@),
    //@loop 2 invariant
    //@loop 2     shape == old(self).spec_shape(), row < shape.height,
    //@loop 2     rep(shape, old(self).win(), data@.len()),
    //@loop 2     frame(shape, old(self).win(), old(self).spec_data(), data@),
    //@proof loop2.start proof { let p = Position { row, col }; lemma_offset(shape, old(self).win(), data@.len(), p); assert(is_win_offset(shape, old(self).win(), spec_offset(shape, p))); }

    //@ fn trait SurfaceMut: Surface :: get_mut ret=r
    //@+ requires rep(old(self).spec_shape(), old(self).win(), old(self).spec_data().len()),
    //@+ ensures
    //@+     final(self).spec_shape() == old(self).spec_shape(), final(self).win() == old(self).win(),
    //@+     // outside the window: nothing is handed out and nothing changes
    //@+     !in_win(old(self).win(), pos) ==> r is None && final(self).spec_data() == old(self).spec_data(),
    //@+     // inside: exactly the cell of that position is lent out; whatever is written through it is the only change
    //@+     in_win(old(self).win(), pos) ==> (r matches Some(p) && *p == old(self).spec_data()[spec_offset(old(self).spec_shape(), pos)]
    //@+         && final(self).spec_data() == old(self).spec_data().update(spec_offset(old(self).spec_shape(), pos), *final(p))),
    //@proof start proof { if in_win(old(self).win(), pos) { lemma_offset(old(self).spec_shape(), old(self).win(), old(self).spec_data().len(), pos); } }
    //@subst N8 `<[T]>::get_mut` routed through the specified wrapper slice_get_mut /self\.data_mut\(\)\.get_mut\(shape\.offset\(pos\)\)/slice_get_mut(self.data_mut(), shape.offset(pos))/

    //@ fn trait SurfaceMut: Surface :: set ret=r
    //@+ requires rep(old(self).spec_shape(), old(self).win(), old(self).spec_data().len()), in_win(old(self).win(), pos),
    //@+ ensures
    //@+     final(self).spec_shape() == old(self).spec_shape(), final(self).win() == old(self).win(),
    //@+     final(self).spec_data() == old(self).spec_data().update(spec_offset(old(self).spec_shape(), pos), item),
    //@+     r == old(self).spec_data()[spec_offset(old(self).spec_shape(), pos)],
    //@subst N17 debug_assert!(..) statements removed (no effect on values; their conditions are the precondition) /debug_assert!\((?:[^;]|\n)*?\);//
    //@proof start proof { lemma_offset(old(self).spec_shape(), old(self).win(), old(self).spec_data().len(), pos); }
}

// ---------------------------------------------------------------- Layout::apply_to (C10): a layout clips to a sub-window
//@ item struct SurfaceMutView
impl<'a, T> SurfaceMutView<'a, T> {
    pub closed spec fn g_shape(&self) -> Shape { self.shape }
    pub closed spec fn g_data(&self) -> Seq<T> { self.data@ }

    //@ fn impl<'a, T> SurfaceMutView<'a, T> :: new ret=r
    //@+ ensures r.g_shape() == shape, r.g_data() == old(data)@,

    //@ fn impl<'a, T> SurfaceMutView<'a, T> :: parts ret=r
    //@+ ensures r.0 == self.g_shape(), r.1@ == self.g_data(),
}

// `impl ViewBounds for Range<usize>`: specified by the Python-slice rule for unsigned bounds; that the real impl
// (generated by impl_range_ints!) satisfies it for every value is the Kani harness c08_range_usize (complete).
pub open spec fn range_spec(start: usize, end: usize, size: usize) -> Option<(usize, usize)> {
    let s = if start > size { size } else { start };
    let e = if end > size { size } else { end };
    if s < e { Some((s, e)) } else { None }
}
impl ViewBounds for core::ops::Range<usize> {
    open spec fn spec_bounds(self, size: usize) -> Option<(usize, usize)> { range_spec(self.start, self.end, size) }
    #[verifier::external_body]
    fn view_bounds(self, size: usize) -> (r: Option<(usize, usize)>) { unimplemented!() }
}

// N18: the type-erased payload of Layout is an opaque stand-in
#[verifier::external_body]
pub struct LayoutData { _p: u8 }
//@ item struct Layout src=src/view/layout.rs
//@subst N18 type-erased payload `Box<dyn Any + Send + Sync>` replaced by an opaque stand-in /Box<dyn Any \+ Send \+ Sync>/Box<LayoutData>/

// end of a rectangle that starts at `a` and is `b` long, for any recorded position and size (a layout tree laid out under a huge
// constraint may record rectangles that end beyond usize::MAX: they are clipped like any other)
pub open spec fn sat_add(a: usize, b: usize) -> usize { if a + b > usize::MAX { usize::MAX } else { (a + b) as usize } }

impl Layout {
    pub closed spec fn g_pos(&self) -> Position { self.pos }
    pub closed spec fn g_size(&self) -> Size { self.size }

    //@ fn impl Layout :: apply_to src=src/view/layout.rs ret=r
    //@+ requires
    //@+     exists|win: Win| rep(surf.g_shape(), win, surf.g_data().len()),
    //@+ ensures
    //@+     // same backing data; the new shape denotes the sub-window rows pos.row..pos.row+height, cols pos.col..pos.col+width
    //@+     // of the given surface, clipped to it - never anything outside the surface that was passed in
    //@+     r.g_data() == surf.g_data(),
    //@+     forall|win: Win| rep(surf.g_shape(), win, surf.g_data().len()) ==> rep(r.g_shape(),
    //@+         view_win(win, range_spec(self.g_pos().row, sat_add(self.g_pos().row, self.g_size().height), surf.g_shape().height),
    //@+                       range_spec(self.g_pos().col, sat_add(self.g_pos().col, self.g_size().width), surf.g_shape().width)), surf.g_data().len()),
    //@subst N19 alias `TerminalSurface<'a>` (= SurfaceMutView<'a, Cell>) expanded with the cell type abstracted to a parameter /pub fn apply_to<'a>\(&self, surf: TerminalSurface<'a>\) -> \(r: TerminalSurface<'a>\)/pub fn apply_to<'a, T>(&self, surf: SurfaceMutView<'a, T>) -> (r: SurfaceMutView<'a, T>)/
}

// ---------------------------------------------------------------- the real impls of the two required methods
// (bodies extracted verbatim; they discharge the trait contracts `r == spec_shape()` / `r@ == spec_data()`, so the
// default methods proved above apply to these types - the trait contract is inhabited, not vacuous)
impl<T> Surface for SurfaceOwned<T> {
    type Item = T;
    closed spec fn spec_shape(&self) -> Shape { self.shape }
    closed spec fn spec_data(&self) -> Seq<T> { self.data@ }
    // an owned surface is the whole root matrix (depends on the shape only, hence unchanged by writes to the data)
    closed spec fn win(&self) -> Win { full_win(self.shape.height as nat, self.shape.width as nat) }
    //@ fn impl<T> Surface for SurfaceOwned<T> :: shape ret=r
    //@ fn impl<T> Surface for SurfaceOwned<T> :: data ret=r
    //@subst N5 associated type spelled out /Self::Item/T/
}
impl<T> SurfaceMut for SurfaceOwned<T> {
    //@ fn impl<T> SurfaceMut for SurfaceOwned<T> :: data_mut ret=r
    //@subst N5 associated type spelled out /Self::Item/T/
}
impl<'a, T: 'a> Surface for SurfaceView<'a, T> {
    type Item = T;
    closed spec fn spec_shape(&self) -> Shape { self.shape }
    closed spec fn spec_data(&self) -> Seq<T> { self.data@ }
    closed spec fn win(&self) -> Win { choose|w: Win| rep(self.shape, w, self.data@.len()) }
    //@ fn impl<'a, T: 'a> Surface for SurfaceView<'a, T> :: shape ret=r
    //@ fn impl<'a, T: 'a> Surface for SurfaceView<'a, T> :: data ret=r
    //@subst N5 associated type spelled out /Self::Item/T/
}
impl<'a, T: 'a> Surface for SurfaceMutView<'a, T> {
    type Item = T;
    closed spec fn spec_shape(&self) -> Shape { self.shape }
    closed spec fn spec_data(&self) -> Seq<T> { self.data@ }
    closed spec fn win(&self) -> Win { choose|w: Win| rep(self.shape, w, self.data@.len()) }
    //@ fn impl<'a, T: 'a> Surface for SurfaceMutView<'a, T> :: shape ret=r
    //@ fn impl<'a, T: 'a> Surface for SurfaceMutView<'a, T> :: data ret=r
    //@subst N5 associated type spelled out /Self::Item/T/
}
// (`impl SurfaceMut for SurfaceMutView`: not under contract - its window is only known through `choose`, which Verus
// cannot show stable across the returned `&mut [T]`; forwarding impls stay in the trusted base)

proof fn lemma_divmod(n: int, w: int, h: int)
    requires 0 <= n, 0 < w, 0 <= h,
    ensures
        n == (n / w) * w + n % w, 0 <= n % w < w, 0 <= n / w,
        n - (n / w) * w == n % w,
        (n / w < h) <==> (n < h * w),
{
    assert(n == (n / w) * w + n % w && 0 <= n % w < w && 0 <= n / w) by (nonlinear_arith) requires 0 <= n, 0 < w;
    assert((n / w < h) <==> (n < h * w)) by (nonlinear_arith)
        requires n == (n / w) * w + n % w, 0 <= n % w < w, 0 <= n / w, 0 <= h, 0 < w;
}

} // verus!

fn main() {}
