//@ unit osccolor
//@ props C04
//@ source src/decoder.rs
#![allow(unused_imports, dead_code, unused_variables, unused_mut)]
use vstd::prelude::*;

verus! {

//@ include std_specs.inc

global size_of usize == 8;

// ---------------------------------------------------------------- trusted prelude
// N8: `usize::from_str_radix(string, 16).ok()` and `string.len()` are routed through these wrappers: parsing of the hex digits
// themselves is std's; what is under contract is how a parsed n-digit component becomes an 8-bit channel.
pub uninterp spec fn hex_parse(s: &str) -> Option<usize>;
pub uninterp spec fn byte_len(s: &str) -> usize;
#[verifier::external_body]
fn from_hex(s: &str) -> (r: Option<usize>)
    ensures r == hex_parse(s),
        // an n-character string has at most n hex digits
        r matches Some(v) ==> (byte_len(s) == 1 ==> v <= 0xf) && (byte_len(s) == 2 ==> v <= 0xff) && (byte_len(s) == 3 ==> v <= 0xfff) && (byte_len(s) == 4 ==> v <= 0xffff),
{ usize::from_str_radix(s, 16).ok() }
#[verifier::external_body]
fn str_len(s: &str) -> (r: usize) ensures r == byte_len(s) { s.len() }
#[verifier::external_body]
fn clamp_usize(v: usize, lo: usize, hi: usize) -> (r: usize)
    requires lo <= hi,
    ensures r == (if v < lo { lo } else if v > hi { hi } else { v }),
{ v.clamp(lo, hi) }

// ---------------------------------------------------------------- specification (XParseColor "rgb:<r>/<g>/<b>", 1-4 hex digits each)
// an n-digit component denotes the fraction v / (16^n - 1); its 8-bit channel is the most significant byte of the value scaled
// to 16 bits: 4 digits -> high byte, 3 -> v / 16, 2 -> v, 1 -> digit replicated (v * 17)
pub open spec fn channel(n: int, v: int) -> int {
    let c = if n == 4 { v / 256 } else if n == 3 { v / 16 } else if n == 2 { v } else { v * 17 };
    if c > 255 { 255 } else { c }
}

// what a terminal that stores 8-bit channels reports: each channel replicated to 16 bits (c * 257) as four digits,
// or as two digits - both decode back to the channel
proof fn lemma_roundtrip(c: int)
    requires 0 <= c <= 255,
    ensures channel(4, c * 257) == c, channel(2, c) == c, c % 17 == 0 ==> channel(1, c / 17) == c,
{
    assert((c * 257) / 256 == c) by (nonlinear_arith) requires 0 <= c <= 255;
    if c % 17 == 0 { assert((c / 17) * 17 == c) by (nonlinear_arith) requires c % 17 == 0, 0 <= c; }
}

//@ fn - :: parse_component ret=r
//@+ ensures
//@+     match hex_parse(string) {
//@+         None => r is None,
//@+         Some(v) => if 1 <= byte_len(string) <= 4 { r == Some(channel(byte_len(string) as int, v as int) as u8) } else { r is None },
//@+     },
//@subst N8 from_str_radix routed through the wrapper /usize::from_str_radix\(string, 16\)\.ok\(\)\?/from_hex(string)?/
//@subst N8 str::len routed through the wrapper /match string\.len\(\)/match str_len(string)/
//@subst N12 usize::clamp routed through the wrapper /value\.clamp\(0, 255\)/clamp_usize(value, 0, 255)/

} // verus!

fn main() {}
