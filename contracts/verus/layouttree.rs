//@ unit layouttree
//@ props C10
//@ source src/view/layout.rs
#![allow(unused_imports, dead_code, unused_variables, unused_mut)]
use vstd::prelude::*;

verus! {

//@ include std_specs.inc

global size_of usize == 8;

// ---------------------------------------------------------------- trusted prelude
pub assume_specification<T>[ Option::<T>::replace ](o: &mut Option<T>, v: T) -> (r: Option<T>)
    ensures r == *old(o), *final(o) == Some(v);

//@ item struct Position src=src/terminal.rs
//@ item struct Size src=src/terminal.rs

// N18: the type-erased payload of Layout is an opaque stand-in
#[verifier::external_body]
pub struct LayoutData { _p: u8 }
//@ item struct Layout
//@subst N18 type-erased payload `Box<dyn Any + Send + Sync>` replaced by an opaque stand-in /Box<dyn Any \+ Send \+ Sync>/Box<LayoutData>/
//@subst N20 field visibility widened to pub so that contracts of public functions may mention the fields (no effect on behaviour) /(?m)^(\s+)(\w+): /\1pub \2: /

//@ item struct TreeId
//@subst N20 field visibility widened to pub so that contracts of public functions may mention the fields (no effect on behaviour) /TreeId\(usize\)/TreeId(pub usize)/
//@ item struct TreeNode
//@subst N20 field visibility widened to pub so that contracts of public functions may mention the fields (no effect on behaviour) /(?m)^(\s+)(\w+): /\1pub \2: /
// N18: `SmallVec<[TreeNode<T>; 5]>` replaced by Vec (same push / len / index interface; inline capacity is not observable)
pub type TreeStore<T> = Vec<TreeNode<T>>;

// ---------------------------------------------------------------- specification: arena invariant and hit-testing
// every link points forward and inside the arena (children and later siblings are allocated after the node)
pub open spec fn link_ok(l: Option<TreeId>, i: int, len: int) -> bool { l matches Some(t) ==> i < t.0 < len }
pub open spec fn node_ok<T>(n: TreeNode<T>, i: int, len: int) -> bool {
    link_ok(n.sibling, i, len) && link_ok(n.child_first, i, len) && link_ok(n.child_last, i, len)
}
// the child_last shortcut is consistent: a node has a last child iff it has a first one, the last child has no sibling after it,
// and no two nodes share a last child (a node has one parent)
pub open spec fn last_ok<T>(store: Seq<TreeNode<T>>, i: int) -> bool {
    &&& (store[i].child_first is None) == (store[i].child_last is None)
    &&& (store[i].child_last matches Some(l) ==> 0 <= l.0 < store.len() && store[l.0 as int].sibling is None)
}
pub open spec fn kids_wf<T>(store: Seq<TreeNode<T>>) -> bool {
    &&& forall|i: int| 0 <= i < store.len() ==> #[trigger] last_ok(store, i)
    &&& forall|i: int, j: int| 0 <= i < store.len() && 0 <= j < store.len() && i != j && (#[trigger] store[i]).child_last is Some ==> store[i].child_last != (#[trigger] store[j]).child_last
}
pub open spec fn tree_wf<T>(store: Seq<TreeNode<T>>) -> bool {
    forall|i: int| 0 <= i < store.len() ==> node_ok(#[trigger] store[i], i, store.len() as int)
}
// the rectangle a layout records contains the position
pub open spec fn contains(l: Layout, pos: Position) -> bool {
    l.pos.col <= pos.col && pos.col < l.pos.col + l.size.width && l.pos.row <= pos.row && pos.row < l.pos.row + l.size.height
}
pub open spec fn rect_ok(l: Layout) -> bool { l.pos.col + l.size.width <= usize::MAX && l.pos.row + l.size.height <= usize::MAX }
// first node of the sibling chain starting at `start` whose rectangle contains the position
pub open spec fn first_hit(store: Seq<TreeNode<Layout>>, start: Option<TreeId>, pos: Position) -> Option<TreeId>
    decreases (match start { Some(k) => store.len() - k.0, None => 0 }),
{
    match start {
        None => None,
        Some(k) => if k.0 >= store.len() { None } else if contains(store[k.0 as int].value, pos) { Some(k) }
                   else if link_ok(store[k.0 as int].sibling, k.0 as int, store.len() as int) { first_hit(store, store[k.0 as int].sibling, pos) } else { None },
    }
}

//@ item struct FindPath
//@subst N20 field visibility widened to pub so that contracts of public functions may mention the fields (no effect on behaviour) /(?m)^(\s+)(\w+): /\1pub \2: /
impl<'a> FindPath<'a> {
    //@ fn impl<'a> Iterator for FindPath<'a> :: next ret=r
    //@+ requires
    //@+     tree_wf(old(self).store@),
    //@+     old(self).current matches Some(c) ==> c.0 < old(self).store@.len(),
    //@+ ensures
    //@+     final(self).store == old(self).store,
    //@+     old(self).current is None ==> r is None && final(self).current is None && final(self).pos == old(self).pos,
    //@+     // one step of hit-testing: yields the current layout, then descends into the FIRST child (in insertion order)
    //@+     // whose recorded rectangle contains the position, re-expressing the position relative to that child
    //@+     old(self).current matches Some(c) ==> (r == Some(&old(self).store@[c.0 as int].value)
    //@+         && final(self).current == first_hit(old(self).store@, old(self).store@[c.0 as int].child_first, old(self).pos)
    //@+         && (match final(self).current {
    //@+                 Some(n) => n.0 < old(self).store@.len() && c.0 < n.0
    //@+                     && final(self).pos.row == old(self).pos.row - old(self).store@[n.0 as int].value.pos.row
    //@+                     && final(self).pos.col == old(self).pos.col - old(self).store@[n.0 as int].value.pos.col,
    //@+                 None => final(self).pos == old(self).pos })),
    //@subst N5 associated type of the dropped trait impl spelled out /Self::Item/&'a Layout/
    //@proof before:/while\slet/ proof { assert(node_ok(self.store@[current_id.0 as int], current_id.0 as int, self.store@.len() as int)); }
    //@proof loop1.start proof { assert(node_ok(self.store@[child_id.0 as int], child_id.0 as int, self.store@.len() as int)); }
    //@loop 1 invariant_except_break
    //@loop 1     self.current is None, self.pos == old(self).pos,
    //@loop 1     first_hit(self.store@, child_id_opt, old(self).pos) == first_hit(self.store@, self.store@[current_id.0 as int].child_first, old(self).pos),
    //@loop 1 invariant
    //@loop 1     self.store == old(self).store, tree_wf(self.store@), current_id.0 < self.store@.len(),
    //@loop 1     child_id_opt matches Some(k) ==> current_id.0 < k.0 < self.store@.len(),
    //@loop 1 ensures
    //@loop 1     self.current == first_hit(self.store@, self.store@[current_id.0 as int].child_first, old(self).pos),
    //@loop 1     match self.current {
    //@loop 1         Some(n) => n.0 < self.store@.len() && current_id.0 < n.0
    //@loop 1             && self.pos.row == old(self).pos.row - self.store@[n.0 as int].value.pos.row
    //@loop 1             && self.pos.col == old(self).pos.col - self.store@[n.0 as int].value.pos.col,
    //@loop 1         None => self.pos == old(self).pos },
    //@loop 1 decreases (match child_id_opt { Some(k) => self.store@.len() - k.0, None => 0 }),
}

impl<T> TreeNode<T> {
    //@ fn impl<T> TreeNode<T> :: new ret=r
    //@+ ensures r.value == value, r.sibling is None, r.child_first is None, r.child_last is None,
}

// ---------------------------------------------------------------- the arena as a tree: Tree / TreeMut default methods
//@ item struct TreeView
//@subst N20 field visibility widened to pub so that contracts of public functions may mention the fields (no effect on behaviour) /(?m)^(\s+)(\w+): /\1pub \2: /
//@ item struct TreeIter
//@subst N20 field visibility widened to pub so that contracts of public functions may mention the fields (no effect on behaviour) /(?m)^(\s+)(\w+): /\1pub \2: /
//@ item struct TreeMutView
//@subst N20 field visibility widened to pub so that contracts of public functions may mention the fields (no effect on behaviour) /(?m)^(\s+)(\w+): /\1pub \2: /

pub trait Tree {
    type Value;
    spec fn spec_id(&self) -> TreeId;
    spec fn spec_store(&self) -> Seq<TreeNode<Self::Value>>;

    fn id(&self) -> (r: TreeId)
        ensures r == self.spec_id();
    fn store(&self) -> (r: &[TreeNode<Self::Value>])
        ensures r@ == self.spec_store();

    //@ fn trait Tree :: view ret=r
    //@+ ensures r.store@ == self.spec_store(), r.id == self.spec_id(),

    //@ fn trait Tree :: value ret=r
    //@+ requires self.spec_id().0 < self.spec_store().len(),
    //@+ ensures *r == self.spec_store()[self.spec_id().0 as int].value,

    // (Tree::find_path - `FindPath { current: Some(self.id()), store: self.store(), pos }` - carries a `where Self: Tree<Value = Layout>`
    // bound that Verus reports as a trait cycle; it is a plain constructor and stays outside)

    //@ fn trait Tree :: children ret=r
    //@+ requires self.spec_id().0 < self.spec_store().len(),
    //@+ ensures r.store@ == self.spec_store(), r.id == self.spec_store()[self.spec_id().0 as int].child_first,
}

impl<'a, T> TreeIter<'a, T> {
    //@ fn impl<'a, T> Iterator for TreeIter<'a, T> :: next ret=r
    //@+ requires tree_wf(old(self).store@), old(self).id matches Some(k) ==> k.0 < old(self).store@.len(),
    //@+ ensures
    //@+     final(self).store == old(self).store,
    //@+     // walks the sibling chain: yields the node it stands on and moves to that node's sibling, which lies further on in the arena
    //@+     match old(self).id {
    //@+         None => r is None && final(self).id is None,
    //@+         Some(k) => r matches Some(v) && v.id == k && v.store == old(self).store && final(self).id == old(self).store@[k.0 as int].sibling
    //@+             && (final(self).id matches Some(n) ==> k.0 < n.0 < old(self).store@.len()),
    //@+     },
    //@subst N5 associated type of the dropped trait impl spelled out /Self::Item/TreeView<'a, T>/
    //@proof start proof { if old(self).id is Some { let k = old(self).id->Some_0; assert(node_ok(old(self).store@[k.0 as int], k.0 as int, old(self).store@.len() as int)); } }
}

// values of the nodes that existed before are untouched
pub open spec fn values_kept<T>(before: Seq<TreeNode<T>>, after: Seq<TreeNode<T>>) -> bool {
    before.len() <= after.len() && forall|i: int| 0 <= i < before.len() ==> (#[trigger] after[i]).value == before[i].value
}

pub trait TreeMut: Tree {
    fn store_mut(&mut self) -> (r: &mut TreeStore<Self::Value>)
        ensures r@ == old(self).spec_store(), final(self).spec_store() == final(r)@, final(self).spec_id() == old(self).spec_id();

    //@ fn trait TreeMut: Tree :: push ret=r
    //@+ requires tree_wf(old(self).spec_store()), kids_wf(old(self).spec_store()), old(self).spec_id().0 < old(self).spec_store().len(), old(self).spec_store().len() < usize::MAX,
    //@+ ensures
    //@+     kids_wf(r.store@),
    //@+     // a new node is allocated at the end of the arena and linked as the LAST child of this node
    //@+     r.id.0 == old(self).spec_store().len(), r.store@.len() == old(self).spec_store().len() + 1,
    //@+     tree_wf(r.store@), values_kept(old(self).spec_store(), r.store@), r.store@[r.id.0 as int].value == value,
    //@+     r.store@[r.id.0 as int].sibling is None, r.store@[r.id.0 as int].child_first is None,
    //@+     r.store@[old(self).spec_id().0 as int].child_last == Some(r.id),
    //@+     old(self).spec_store()[old(self).spec_id().0 as int].child_last is None ==> r.store@[old(self).spec_id().0 as int].child_first == Some(r.id),
    //@+     old(self).spec_store()[old(self).spec_id().0 as int].child_last matches Some(l) ==> r.store@[l.0 as int].sibling == Some(r.id)
    //@+         && r.store@[old(self).spec_id().0 as int].child_first == old(self).spec_store()[old(self).spec_id().0 as int].child_first,
    //@proof start proof { let s0 = old(self).spec_store(); let root = old(self).spec_id().0 as int; assert(node_ok(s0[root], root, s0.len() as int)); }
    //@proof before:/TreeMutView\s\{\n\s+store,\n\s+id:\schild_id/ proof { let s0 = old(self).spec_store(); let s2 = store@; let root = root_id as int; let n = s0.len() as int; assert(last_ok(s0, root)); assert forall|i: int| 0 <= i < s2.len() implies #[trigger] last_ok(s2, i) by { if i < n { assert(last_ok(s0, i)); if i != root && s0[i].child_last is Some { assert(s0[i].child_last != s0[root].child_last); } } } assert forall|i: int, j: int| 0 <= i < s2.len() && 0 <= j < s2.len() && i != j && (#[trigger] s2[i]).child_last is Some implies s2[i].child_last != (#[trigger] s2[j]).child_last by { if i < n { assert(last_ok(s0, i)); } if j < n { assert(last_ok(s0, j)); } if i < n && j < n && i != root && j != root { assert(s0[i].child_last is Some); assert(s0[i].child_last != s0[j].child_last); } } }

    //@ fn trait TreeMut: Tree :: view_mut ret=r
    //@+ ensures r.store@ == old(self).spec_store(), r.id == old(self).spec_id(),

    //@ fn trait TreeMut: Tree :: pop ret=r
    //@+ requires tree_wf(old(self).spec_store()), kids_wf(old(self).spec_store()), old(self).spec_id().0 < old(self).spec_store().len(),
    //@+ ensures
    //@+     r matches Some(v) ==> kids_wf(v.store@),
    //@+     // detaches the FIRST child: the node's child list now starts at that child's sibling; nothing else is relinked
    //@+     match old(self).spec_store()[old(self).spec_id().0 as int].child_first {
    //@+         None => r is None,
    //@+         Some(c) => r matches Some(v) && v.id == c && tree_wf(v.store@) && v.store@.len() == old(self).spec_store().len()
    //@+             && values_kept(old(self).spec_store(), v.store@)
    //@+             && v.store@[old(self).spec_id().0 as int].child_first == old(self).spec_store()[c.0 as int].sibling
    //@+             && v.store@[c.0 as int].sibling is None,
    //@+     },
    //@proof start proof { let s0 = old(self).spec_store(); let root = old(self).spec_id().0 as int; assert(node_ok(s0[root], root, s0.len() as int)); if s0[root].child_first is Some { let c = s0[root].child_first->Some_0.0 as int; assert(node_ok(s0[c], c, s0.len() as int)); } }
    //@proof before:/Some\(TreeMutView\s\{/ proof { let s0 = old(self).spec_store(); let s2 = store@; let root = root_id as int; let c = child_id.0 as int; assert(last_ok(s0, root)); assert forall|i: int| 0 <= i < s2.len() implies #[trigger] last_ok(s2, i) by { assert(last_ok(s0, i)); } assert forall|i: int, j: int| 0 <= i < s2.len() && 0 <= j < s2.len() && i != j && (#[trigger] s2[i]).child_last is Some implies s2[i].child_last != (#[trigger] s2[j]).child_last by { assert(s0[i].child_last is Some); assert(s0[i].child_last != s0[j].child_last); } }

    //@ fn trait TreeMut: Tree :: child_mut ret=r
    //@+ requires old(self).spec_id().0 < old(self).spec_store().len(),
    //@+ ensures
    //@+     match old(self).spec_store()[old(self).spec_id().0 as int].child_first {
    //@+         None => r is None,
    //@+         Some(c) => r matches Some(v) && v.id == c && v.store@ == old(self).spec_store(),
    //@+     },
}

impl<'a, T> TreeMutView<'a, T> {
    //@ fn impl<'a, T> TreeMutView<'a, T> :: new ret=r
    //@+ requires tree_wf(old(store)@), kids_wf(old(store)@), old(store)@.len() < usize::MAX,
    //@+ ensures kids_wf(r.store@), r.id.0 == old(store)@.len(), r.store@ == old(store)@.push(TreeNode { value, sibling: None, child_first: None, child_last: None }), tree_wf(r.store@),
    //@proof before:/Self\s\{\sstore,\sid\s\}/ proof { let s1 = store@; assert forall|i: int| 0 <= i < s1.len() implies node_ok(#[trigger] s1[i], i, s1.len() as int) by { if i < s1.len() - 1 { assert(node_ok(old(store)@[i], i, old(store)@.len() as int)); } } assert forall|i: int| 0 <= i < s1.len() implies #[trigger] last_ok(s1, i) by { if i < s1.len() - 1 { assert(last_ok(old(store)@, i)); } } assert forall|i: int, j: int| 0 <= i < s1.len() && 0 <= j < s1.len() && i != j && (#[trigger] s1[i]).child_last is Some implies s1[i].child_last != (#[trigger] s1[j]).child_last by { if j < s1.len() - 1 { assert(old(store)@[i].child_last != old(store)@[j].child_last); } } }

    //@ fn impl<'a, T> TreeMutView<'a, T> :: sibling ret=r
    //@subst N21 `mut self` parameter (unsupported) rebound as a mutable local /sibling\(mut self\)/sibling(self)/
    //@subst N21 `mut self` parameter (unsupported) rebound as a mutable local /self\.id = self\.store\(\)\[self\.id\(\)\.0\]\.sibling\?;\s*Some\(self\)/let mut this = self; this.id = this.store()[this.id().0].sibling?; Some(this)/
    //@+ requires self.id.0 < old(self.store)@.len(),
    //@+ ensures
    //@+     match old(self.store)@[self.id.0 as int].sibling {
    //@+         None => r is None,
    //@+         Some(s) => r matches Some(v) && v.id == s && v.store@ == old(self.store)@,
    //@+     },
}

// the real impls of the required methods (bodies extracted verbatim): the trait contract is inhabited
impl<T> Tree for TreeMutView<'_, T> {
    type Value = T;
    open spec fn spec_id(&self) -> TreeId { self.id }
    open spec fn spec_store(&self) -> Seq<TreeNode<T>> { self.store@ }
    //@ fn impl<T> Tree for TreeMutView<'_, T> :: id ret=r
    //@ fn impl<T> Tree for TreeMutView<'_, T> :: store ret=r
    //@subst N5 associated type spelled out /Self::Value/T/
    //@subst N13 Vec to slice coercion made explicit /(?m)^(\s+)self\.store$/\1self.store.as_slice()/
}
impl<T> TreeMut for TreeMutView<'_, T> {
    //@ fn impl<T> TreeMut for TreeMutView<'_, T> :: store_mut ret=r
}
impl<T> Tree for TreeView<'_, T> {
    type Value = T;
    open spec fn spec_id(&self) -> TreeId { self.id }
    open spec fn spec_store(&self) -> Seq<TreeNode<T>> { self.store@ }
    //@ fn impl<T> Tree for TreeView<'_, T> :: id ret=r
    //@ fn impl<T> Tree for TreeView<'_, T> :: store ret=r
    //@subst N5 associated type spelled out /Self::Value/T/
}

} // verus!

fn main() {}
