//@ unit base64rt
//@ props C14
//@ rlimit 60
#![allow(unused_imports, dead_code, unused_variables)]
use vstd::prelude::*;

verus! {

// The two specifications (shared, textually, with the units that verify the real encoder and decoder against them)
//@ include b64_enc_spec.inc
//@ include b64_dec_spec.inc

// ---------------------------------------------------------------- unb64(b64(s)) == s, for every byte string
// alphabet and value table are inverse on the 64 values; the alphabet never produces '='
proof fn lemma_alpha_inverse(i: u8)
    requires i < 64,
    ensures dec_val(alpha(i)) == i, alpha(i) != 61u8,
{
}

// one full group
proof fn lemma_quantum(a: u8, b: u8, c: u8)
    ensures dec4(enc3(a, b, c)) == seq![a, b, c],
{
    let q = enc3(a, b, c);
    let (i0, i1, i2, i3) = (idx0(a), idx1(a, b), idx2(b, c), idx3(c));
    assert(i0 < 64 && i1 < 64 && i2 < 64 && i3 < 64) by (bit_vector)
        requires i0 == a >> 2, i1 == ((a & 3) << 4) | (b >> 4), i2 == ((b & 15) << 2) | (c >> 6), i3 == c & 63;
    lemma_alpha_inverse(i0); lemma_alpha_inverse(i1); lemma_alpha_inverse(i2); lemma_alpha_inverse(i3);
    assert(q[0] == alpha(i0) && q[1] == alpha(i1) && q[2] == alpha(i2) && q[3] == alpha(i3));
    assert(((i0 << 2) | (i1 >> 4)) == a && ((i1 << 4) | (i2 >> 2)) == b && ((i2 << 6) | i3) == c) by (bit_vector)
        requires i0 == a >> 2, i1 == ((a & 3) << 4) | (b >> 4), i2 == ((b & 15) << 2) | (c >> 6), i3 == c & 63;
    assert(q_size(q) == 3);
    assert(q_bytes(q) =~= seq![a, b, c]);
    assert(q_bytes(q).subrange(0, 3) =~= seq![a, b, c]);
}

// the padded final quantum
proof fn lemma_tail(p: Seq<u8>)
    requires p.len() < 3,
    ensures dec_text(enc_tail(p)) == p,
{
    if p.len() == 0 {
        assert(dec_text(enc_tail(p)) =~= p);
    } else {
        let q = enc_tail(p);
        assert(q.len() == 4);
        let a = p[0];
        let b = if p.len() == 2 { p[1] } else { 0u8 };
        let (i0, i1, i2) = (idx0(a), idx1(a, b), idx2(b, 0));
        assert(i0 < 64 && i1 < 64 && i2 < 64) by (bit_vector)
            requires i0 == a >> 2, i1 == ((a & 3) << 4) | (b >> 4), i2 == ((b & 15) << 2) | (0u8 >> 6);
        lemma_alpha_inverse(i0); lemma_alpha_inverse(i1); lemma_alpha_inverse(i2);
        assert(((i0 << 2) | (i1 >> 4)) == a && ((i1 << 4) | (i2 >> 2)) == b) by (bit_vector)
            requires i0 == a >> 2, i1 == ((a & 3) << 4) | (b >> 4), i2 == ((b & 15) << 2) | (0u8 >> 6);
        assert(dec_val(61u8) == 0u8);
        assert(q.subrange(0, 4) =~= q);
        assert(dec_text(q.skip(4)) =~= Seq::<u8>::empty());
        if p.len() == 1 {
            assert(q[0] == alpha(i0) && q[1] == alpha(idx1(a, 0)) && q[2] == 61u8 && q[3] == 61u8);
            assert(q_size(q) == 1);
            assert(q_bytes(q)[0] == a);
            assert(dec4(q) =~= seq![a]);
            assert(dec_text(q) =~= dec4(q) + Seq::<u8>::empty());
            assert(p =~= seq![a]);
        } else {
            assert(q[0] == alpha(i0) && q[1] == alpha(i1) && q[2] == alpha(i2) && q[3] == 61u8);
            assert(q_size(q) == 2);
            assert(q_bytes(q)[0] == a && q_bytes(q)[1] == b);
            assert(dec4(q) =~= seq![a, b]);
            assert(dec_text(q) =~= dec4(q) + Seq::<u8>::empty());
            assert(p =~= seq![a, b]);
        }
    }
}

proof fn lemma_dec_text_append_quantum(q: Seq<u8>, t: Seq<u8>)
    requires q.len() == 4,
    ensures dec_text(q + t) == dec4(q) + dec_text(t),
{
    assert((q + t).subrange(0, 4) =~= q);
    assert((q + t).skip(4) =~= t);
}

// the theorem: decoding the RFC 4648 text of any byte string gives the byte string back
proof fn lemma_roundtrip(s: Seq<u8>)
    ensures dec_text(b64(s)) == s,
    decreases s.len(),
{
    if s.len() < 3 {
        assert(full(s) =~= Seq::<u8>::empty());
        assert(rem(s) =~= s);
        assert(b64(s) =~= enc_tail(s));
        lemma_tail(s);
    } else {
        let t = s.skip(3);
        lemma_roundtrip(t);
        lemma_quantum(s[0], s[1], s[2]);
        assert(full(s) == enc3(s[0], s[1], s[2]) + full(t));
        assert(rem(s) == rem(t));
        assert(b64(s) =~= enc3(s[0], s[1], s[2]) + b64(t));
        lemma_dec_text_append_quantum(enc3(s[0], s[1], s[2]), b64(t));
        assert(seq![s[0], s[1], s[2]] + t =~= s);
    }
}

} // verus!

fn main() {}
