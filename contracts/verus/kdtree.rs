//@ unit kdtree
//@ rlimit 80
//@ props C13
//@ source src/image.rs
#![allow(unused_imports, dead_code, unused_variables, unused_mut)]
use vstd::prelude::*;

verus! {

// ---------------------------------------------------------------- trusted prelude
// i32::pow(2) on channel differences (|x| <= 255): no overflow, value x*x
//@ include std_specs.inc

pub assume_specification[ i32::pow ](base: i32, exp: u32) -> (r: i32)
    requires exp == 2, -65536 < base < 65536,
    ensures r == base * base;

//@ item struct KDNode
//@ item struct KDTree
//@ item struct ColorPalette

// N18: the dependency type rasterize::RGBA is replaced by an opaque stand-in carrying only the contract of the
// constructor and accessor the extracted functions use
#[verifier::external_body]
#[derive(Clone, Copy)]
pub struct RGBA { v: [u8; 4] }
impl RGBA {
    pub uninterp spec fn rgb(&self) -> [u8; 3];
    pub uninterp spec fn alpha(&self) -> u8;
    #[verifier::external_body]
    pub fn new(r: u8, g: u8, b: u8, a: u8) -> (c: RGBA)
        ensures c.rgb()@ == seq![r, g, b], c.alpha() == a,
    { RGBA { v: [r, g, b, a] } }
    #[verifier::external_body]
    pub fn to_rgb(self) -> (r: [u8; 3])
        ensures r == self.rgb(),
    { [self.v[0], self.v[1], self.v[2]] }
}

// ---------------------------------------------------------------- specification
pub open spec fn sq(x: int) -> int { x * x }
// squared Euclidean RGB distance
pub open spec fn d2(t: [u8; 3], c: [u8; 3]) -> int {
    sq(t[0] as int - c[0] as int) + sq(t[1] as int - c[1] as int) + sq(t[2] as int - c[2] as int)
}
spec fn child_ok(nodes: Seq<KDNode>, i: int, c: Option<usize>) -> bool {
    c matches Some(k) ==> k < i
}
// j is a node of the subtree rooted at i
spec fn in_sub(nodes: Seq<KDNode>, i: int, j: int) -> bool
    decreases i,
{
    if i < 0 || i >= nodes.len() { false } else {
        j == i
        || (nodes[i].left matches Some(l) && (l as int) < i && in_sub(nodes, l as int, j))
        || (nodes[i].right matches Some(r) && (r as int) < i && in_sub(nodes, r as int, j))
    }
}
// k-d tree invariant of the subtree rooted at i: children precede their parent in the arena, the split
// dimension is valid, everything on the left is <= the node in that dimension, everything on the right >=
spec fn kd_wf(nodes: Seq<KDNode>, i: int) -> bool
    decreases i,
{
    &&& 0 <= i < nodes.len()
    &&& nodes[i].dim < 3
    &&& (nodes[i].left matches Some(l) ==> (l as int) < i && kd_wf(nodes, l as int)
            && forall|j: int| in_sub(nodes, l as int, j) ==> #[trigger] nodes[j].color[nodes[i].dim as int] <= nodes[i].color[nodes[i].dim as int])
    &&& (nodes[i].right matches Some(r) ==> (r as int) < i && kd_wf(nodes, r as int)
            && forall|j: int| in_sub(nodes, r as int, j) ==> #[trigger] nodes[j].color[nodes[i].dim as int] >= nodes[i].color[nodes[i].dim as int])
}

proof fn lemma_in_sub_range(nodes: Seq<KDNode>, i: int, j: int)
    requires in_sub(nodes, i, j),
    ensures 0 <= j <= i < nodes.len(),
    decreases i,
{
    if j != i {
        if nodes[i].left is Some && (nodes[i].left->Some_0 as int) < i && in_sub(nodes, nodes[i].left->Some_0 as int, j) {
            lemma_in_sub_range(nodes, nodes[i].left->Some_0 as int, j);
        } else {
            let r = nodes[i].right->Some_0;
            lemma_in_sub_range(nodes, r as int, j);
        }
    }
}

// one coordinate bounds the distance from below
proof fn lemma_d2_lower(t: [u8; 3], c: [u8; 3], k: int)
    requires 0 <= k < 3,
    ensures d2(t, c) >= sq(t[k] as int - c[k] as int),
{
    assert(sq(t[0] as int - c[0] as int) >= 0) by (nonlinear_arith);
    assert(sq(t[1] as int - c[1] as int) >= 0) by (nonlinear_arith);
    assert(sq(t[2] as int - c[2] as int) >= 0) by (nonlinear_arith);
}

// pruning argument: a point on the far side of the splitting plane is at least as far as the plane
proof fn lemma_far_side(tk: int, ck: int, xk: int)
    requires (tk < ck && xk >= ck) || (tk >= ck && xk <= ck),
    ensures sq(tk - xk) >= sq(tk - ck),
{
    assert(sq(tk - xk) >= sq(tk - ck)) by (nonlinear_arith)
        requires (tk < ck && xk >= ck) || (tk >= ck && xk <= ck);
}

//@ fn impl KDTree :: dist ret=r
//@+ ensures r == d2(rgb, node.color), 0 <= r <= 3 * 255 * 255,
//@subst N4 array pattern replaced by indexed lets /let \[r0, g0, b0\] = rgb;/let r0 = rgb[0]; let g0 = rgb[1]; let b0 = rgb[2];/
//@subst N4 array pattern replaced by indexed lets /let \[r1, g1, b1\] = node\.color;/let r1 = node.color[0]; let g1 = node.color[1]; let b1 = node.color[2];/
//@proof before:/\(r0\sas\si32/ proof { assert(sq(r0 as int - r1 as int) <= 255 * 255 && sq(g0 as int - g1 as int) <= 255 * 255 && sq(b0 as int - b1 as int) <= 255 * 255) by (nonlinear_arith) requires 0 <= r0 <= 255, 0 <= r1 <= 255, 0 <= g0 <= 255, 0 <= g1 <= 255, 0 <= b0 <= 255, 0 <= b1 <= 255; assert(sq(r0 as int - r1 as int) >= 0 && sq(g0 as int - g1 as int) >= 0 && sq(b0 as int - b1 as int) >= 0) by (nonlinear_arith); }

//@ fn impl KDTree :: find_rec ret=r
//@+ requires kd_wf(nodes@, index as int),
//@+ ensures
//@+     exists|j: int| in_sub(nodes@, index as int, j) && r.0 == nodes@[j],
//@+     r.1 == d2(target, r.0.color),
//@+     forall|j: int| in_sub(nodes@, index as int, j) ==> r.1 <= d2(target, #[trigger] nodes@[j].color),
//@+ decreases index,
//@proof after:/let\sother_dist\s=/ proof { if other_dist >= guess_dist && other is Some { let o = other->Some_0 as int; let dim = node.dim as int; assert forall|j: int| in_sub(nodes@, o, j) implies guess_dist <= d2(target, #[trigger] nodes@[j].color) by { lemma_d2_lower(target, nodes@[j].color, dim); lemma_far_side(target[dim] as int, node.color[dim] as int, nodes@[j].color[dim] as int); } } }

// ---------------------------------------------------------------- construction establishes the invariant
// `in_sub` / `kd_wf` of a subtree only look at nodes up to its root: pushing more nodes changes nothing
spec fn prefix_eq(a: Seq<KDNode>, b: Seq<KDNode>, n: int) -> bool {
    n <= a.len() && n <= b.len() && forall|k: int| 0 <= k < n ==> a[k] == b[k]
}
proof fn lemma_in_sub_prefix(a: Seq<KDNode>, b: Seq<KDNode>, i: int, j: int)
    requires prefix_eq(a, b, i + 1),
    ensures in_sub(a, i, j) == in_sub(b, i, j),
    decreases i,
{
    if 0 <= i {
        assert(a[i] == b[i]);
        if a[i].left is Some && (a[i].left->Some_0 as int) < i { lemma_in_sub_prefix(a, b, a[i].left->Some_0 as int, j); }
        if a[i].right is Some && (a[i].right->Some_0 as int) < i { lemma_in_sub_prefix(a, b, a[i].right->Some_0 as int, j); }
    }
}
proof fn lemma_kd_wf_prefix(a: Seq<KDNode>, b: Seq<KDNode>, i: int)
    requires prefix_eq(a, b, i + 1),
    ensures kd_wf(a, i) == kd_wf(b, i),
    decreases i,
{
    if 0 <= i {
        assert(a[i] == b[i]);
        let dim = a[i].dim as int;
        if a[i].left is Some && (a[i].left->Some_0 as int) < i {
            let l = a[i].left->Some_0 as int;
            lemma_kd_wf_prefix(a, b, l);
            assert forall|j: int| in_sub(a, l, j) == in_sub(b, l, j) by { lemma_in_sub_prefix(a, b, l, j); }
            assert forall|j: int| in_sub(a, l, j) implies a[j] == b[j] by { lemma_in_sub_range(a, l, j); }
        }
        if a[i].right is Some && (a[i].right->Some_0 as int) < i {
            let r = a[i].right->Some_0 as int;
            lemma_kd_wf_prefix(a, b, r);
            assert forall|j: int| in_sub(a, r, j) == in_sub(b, r, j) by { lemma_in_sub_prefix(a, b, r, j); }
            assert forall|j: int| in_sub(a, r, j) implies a[j] == b[j] by { lemma_in_sub_range(a, r, j); }
        }
    }
}
proof fn lemma_in_tree_prefix(a: Seq<KDNode>, b: Seq<KDNode>, i: int, e: (usize, [u8; 3]))
    requires prefix_eq(a, b, i + 1),
    ensures in_tree(a, i, e) == in_tree(b, i, e),
{
    assert forall|j: int| in_sub(a, i, j) == in_sub(b, i, j) by { lemma_in_sub_prefix(a, b, i, j); }
    assert forall|j: int| in_sub(a, i, j) implies a[j] == b[j] by { lemma_in_sub_range(a, i, j); }
    if in_tree(a, i, e) { let j = choose|j: int| in_sub(a, i, j) && e == entry(a[j]); assert(in_sub(b, i, j) && e == entry(b[j])); }
    if in_tree(b, i, e) { let j = choose|j: int| in_sub(b, i, j) && e == entry(b[j]); lemma_in_sub_range(b, i, j); assert(in_sub(a, i, j) && e == entry(a[j])); }
}

// entries (palette index, colour) held by the subtree rooted at i
// the palette entry a node stands for (the only place the node's index field is read: everything below speaks of entries)
spec fn entry(n: KDNode) -> (usize, [u8; 3]) { (n.color_index as usize, n.color) }
spec fn in_tree(nodes: Seq<KDNode>, i: int, e: (usize, [u8; 3])) -> bool {
    exists|j: int| in_sub(nodes, i, j) && e == entry(nodes[j])
}
spec fn in_opt_tree(nodes: Seq<KDNode>, c: Option<usize>, e: (usize, [u8; 3])) -> bool {
    match c { Some(k) => in_tree(nodes, k as int, e), None => false }
}
// the subtree holds exactly the entries of the slice
spec fn holds(nodes: Seq<KDNode>, i: int, cs: Seq<(usize, [u8; 3])>) -> bool {
    forall|e: (usize, [u8; 3])| in_tree(nodes, i, e) <==> cs.contains(e)
}
spec fn same_entries(a: Seq<(usize, [u8; 3])>, b: Seq<(usize, [u8; 3])>) -> bool {
    a.len() == b.len() && forall|e: (usize, [u8; 3])| a.contains(e) <==> b.contains(e)
}
spec fn sorted_by(cs: Seq<(usize, [u8; 3])>, dim: int) -> bool {
    forall|a: int, b: int| 0 <= a <= b < cs.len() ==> cs[a].1[dim] <= cs[b].1[dim]
}

// a node's entries = its own entry + those of its two children
proof fn lemma_in_tree_unfold(nodes: Seq<KDNode>, i: int, e: (usize, [u8; 3]))
    requires 0 <= i < nodes.len(),
        nodes[i].left matches Some(l) ==> (l as int) < i,
        nodes[i].right matches Some(r) ==> (r as int) < i,
    ensures in_tree(nodes, i, e) <==> (e == entry(nodes[i]) || in_opt_tree(nodes, nodes[i].left, e) || in_opt_tree(nodes, nodes[i].right, e)),
{
    if in_tree(nodes, i, e) {
        let j = choose|j: int| in_sub(nodes, i, j) && e == entry(nodes[j]);
        if j != i {
            if nodes[i].left is Some && in_sub(nodes, nodes[i].left->Some_0 as int, j) {
                assert(in_tree(nodes, nodes[i].left->Some_0 as int, e));
            } else {
                assert(in_sub(nodes, nodes[i].right->Some_0 as int, j));
                assert(in_tree(nodes, nodes[i].right->Some_0 as int, e));
            }
        }
    }
    if e == entry(nodes[i]) {
        assert(in_sub(nodes, i, i));
    }
    if in_opt_tree(nodes, nodes[i].left, e) {
        let j = choose|j: int| in_sub(nodes, nodes[i].left->Some_0 as int, j) && e == entry(nodes[j]);
        assert(in_sub(nodes, i, j));
    }
    if in_opt_tree(nodes, nodes[i].right, e) {
        let j = choose|j: int| in_sub(nodes, nodes[i].right->Some_0 as int, j) && e == entry(nodes[j]);
        assert(in_sub(nodes, i, j));
    }
}

proof fn lemma_contains_split(c: Seq<(usize, [u8; 3])>, index: int, e: (usize, [u8; 3]))
    requires 0 <= index < c.len(),
    ensures c.contains(e) <==> (c.subrange(0, index).contains(e) || e == c[index] || c.subrange(index + 1, c.len() as int).contains(e)),
{
    let l = c.subrange(0, index);
    let r = c.subrange(index + 1, c.len() as int);
    if c.contains(e) {
        let m = choose|m: int| 0 <= m < c.len() && c[m] == e;
        if m < index { assert(l[m] == e); } else if m > index { assert(r[m - index - 1] == e); }
    }
    if l.contains(e) { let m = choose|m: int| 0 <= m < l.len() && l[m] == e; assert(c[m] == e); }
    if r.contains(e) { let m = choose|m: int| 0 <= m < r.len() && r[m] == e; assert(c[m + index + 1] == e); }
}


// putting the node on top of the two recursively built subtrees gives a well-formed k-d (sub)tree over the slice
proof fn lemma_assemble(n1: Seq<KDNode>, n2: Seq<KDNode>, n3: Seq<KDNode>, sorted: Seq<(usize, [u8; 3])>, c2: Seq<(usize, [u8; 3])>,
                        index: int, dim: int, left: Option<usize>, right: Option<usize>)
    requires
        0 <= dim < 3, sorted.len() == c2.len(), 1 <= index < sorted.len(),
        sorted_by(sorted, dim),
        same_entries(sorted.subrange(0, index), c2.subrange(0, index)),
        same_entries(sorted.subrange(index + 1, sorted.len() as int), c2.subrange(index + 1, c2.len() as int)),
        c2[index] == sorted[index],
        n1.len() >= 1, left == Some((n1.len() - 1) as usize), kd_wf(n1, n1.len() - 1), holds(n1, n1.len() - 1, c2.subrange(0, index)),
        prefix_eq(n1, n2, n1.len() as int),
        if index + 1 == c2.len() { right is None && n2.len() == n1.len() }
        else { n2.len() > n1.len() && right == Some((n2.len() - 1) as usize) && kd_wf(n2, n2.len() - 1) && holds(n2, n2.len() - 1, c2.subrange(index + 1, c2.len() as int)) },
        n2.len() < usize::MAX,
        n3.len() == n2.len() + 1, prefix_eq(n2, n3, n2.len() as int),
        entry(n3[n3.len() - 1]) == c2[index], n3[n3.len() - 1].dim == dim, n3[n3.len() - 1].left == left, n3[n3.len() - 1].right == right,
    ensures
        kd_wf(n3, n3.len() - 1), holds(n3, n3.len() - 1, c2), same_entries(sorted, c2),
{
    let k = n3.len() - 1;
    let l = n1.len() - 1;
    let len = c2.len() as int;
    let node = n3[k];
    let cl = c2.subrange(0, index);
    let cr = c2.subrange(index + 1, len);
    let sl = sorted.subrange(0, index);
    let sr = sorted.subrange(index + 1, len);
    assert(prefix_eq(n1, n3, l + 1));
    lemma_kd_wf_prefix(n1, n3, l);
    // left subtree: entries come from cl, hence from sl, hence are <= the pivot
    assert forall|j: int| in_sub(n3, l, j) implies #[trigger] n3[j].color[dim] <= node.color[dim] by {
        lemma_in_sub_prefix(n1, n3, l, j);
        lemma_in_sub_range(n1, l, j);
        assert(n3[j] == n1[j]);
        let e = entry(n1[j]);
        assert(in_tree(n1, l, e));
        assert(cl.contains(e));
        assert(sl.contains(e));
        let m = choose|m: int| 0 <= m < sl.len() && sl[m] == e;
        assert(sorted[m] == e);
    }
    if index + 1 < len {
        let r = n2.len() - 1;
        assert(prefix_eq(n2, n3, r + 1));
        lemma_kd_wf_prefix(n2, n3, r);
        assert forall|j: int| in_sub(n3, r, j) implies #[trigger] n3[j].color[dim] >= node.color[dim] by {
            lemma_in_sub_prefix(n2, n3, r, j);
            lemma_in_sub_range(n2, r, j);
            assert(n3[j] == n2[j]);
            let e = entry(n2[j]);
            assert(in_tree(n2, r, e));
            assert(cr.contains(e));
            assert(sr.contains(e));
            let m = choose|m: int| 0 <= m < sr.len() && sr[m] == e;
            assert(sorted[m + index + 1] == e);
        }
    }
    assert(kd_wf(n3, k));
    // the tree holds exactly c2
    assert forall|e: (usize, [u8; 3])| in_tree(n3, k, e) <==> c2.contains(e) by {
        lemma_in_tree_unfold(n3, k, e);
        lemma_contains_split(c2, index, e);
        lemma_in_tree_prefix(n1, n3, l, e);
        if index + 1 < len { lemma_in_tree_prefix(n2, n3, n2.len() - 1, e); }
        else { assert(cr.len() == 0); }
    }
    // and c2 has the entries of the sorted slice
    assert forall|e: (usize, [u8; 3])| sorted.contains(e) <==> c2.contains(e) by {
        lemma_contains_split(sorted, index, e);
        lemma_contains_split(c2, index, e);
    }
}

// N8: `colors.sort_by_key(|(_, c)| c[dim])` routed through the documented contract of a sort: the slice becomes a
// rearrangement of itself, ordered by the key (stability is not needed)
#[verifier::external_body]
fn sort_colors_by_dim(colors: &mut [(usize, [u8; 3])], dim: usize)
    requires dim < 3,
    ensures sorted_by(final(colors)@, dim as int), same_entries(old(colors)@, final(colors)@),
{
    colors.sort_by_key(|(_, c)| c[dim]);
}

//@ fn impl KDTree :: build_rec ret=r
//@+ requires dim < 3, old(nodes)@.len() + old(colors)@.len() <= usize::MAX,
//@+ ensures
//@+     final(nodes)@.len() == old(nodes)@.len() + old(colors)@.len(),
//@+     forall|k: int| 0 <= k < old(nodes)@.len() ==> final(nodes)@[k] == old(nodes)@[k],
//@+     same_entries(old(colors)@, final(colors)@),
//@+     old(colors)@.len() == 0 ==> r is None,
//@+     old(colors)@.len() > 0 ==> (r == Some((final(nodes)@.len() - 1) as usize)
//@+         && kd_wf(final(nodes)@, final(nodes)@.len() - 1)
//@+         && holds(final(nodes)@, final(nodes)@.len() - 1, final(colors)@)),
//@+ decreases old(colors)@.len(),
//@subst N4 slice patterns `[]` / `[x]` replaced by length tests /match colors \{\s*\[\] => return None,\s*\[\(color_index, color\)\] => \{/if colors.len() == 0 { return None; } if colors.len() == 1 { let color_index = &colors[0].0; let color = &colors[0].1; {/
//@subst N4 slice patterns (tail of the rewritten match) /return Some\(nodes\.len\(\) - 1\);\s*\}\s*_ => \(\),\s*\}/return Some(nodes.len() - 1); } }/
//@subst N8 sort_by_key routed through the sort contract /colors\.sort_by_key\(\|\(_, c\)\| c\[dim\]\);/sort_colors_by_dim(colors, dim);/
//@proof before:/return\sSome/ proof { let k = nodes@.len() - 1; assert(colors@.len() == 1); assert forall|e: (usize, [u8; 3])| in_tree(nodes@, k, e) <==> colors@.contains(e) by { lemma_in_tree_unfold(nodes@, k, e); if e == colors@[0] { assert(colors@.contains(e)); } } }
//@proof before:/let\sindex\s=/ let ghost c0 = old(colors)@; let ghost sorted = colors@; let ghost n0 = nodes@;
//@proof after:/let\sleft\s=/ let ghost n1 = nodes@; let ghost c1 = colors@; proof { assert(c1.len() == sorted.len()); assert(c1[index as int] == sorted[index as int]); assert(c1.subrange(index + 1, c1.len() as int) =~= sorted.subrange(index + 1, c1.len() as int)); assert(same_entries(sorted.subrange(0, index as int), c1.subrange(0, index as int))); }
//@proof after:/let\sright\s=/ let ghost n2 = nodes@; let ghost c2 = colors@; proof { let len = c2.len() as int; assert(c2.len() == sorted.len()); assert(c2[index as int] == sorted[index as int]); assert(c2.subrange(0, index as int) =~= c1.subrange(0, index as int)); assert(same_entries(sorted.subrange(index + 1, len), c2.subrange(index + 1, len))); assert(prefix_eq(n1, n2, n1.len() as int)); }
//@proof before:/(?m)^\s*Some\(nodes\.len\(\)\s-\s1\)\s*$/ proof { lemma_assemble(n1, n2, nodes@, sorted, c2, index as int, dim as int, left, right); assert forall|e: (usize, [u8; 3])| c0.contains(e) <==> colors@.contains(e) by { } }

// ---------------------------------------------------------------- palette = tree
// N8: `colors.iter().map(|c| c.to_rgb()).enumerate().collect()` routed through the contract of that adapter chain
#[verifier::external_body]
fn enumerate_rgb(colors: &[RGBA]) -> (r: Vec<(usize, [u8; 3])>)
    ensures r@.len() == colors@.len(), forall|k: int| 0 <= k < colors@.len() ==> #[trigger] r@[k] == (k as usize, colors@[k].rgb()),
{
    colors.iter().map(|c| c.to_rgb()).enumerate().collect()
}

spec fn pal_entry(colors: Seq<RGBA>, k: int) -> (usize, [u8; 3]) { (k as usize, colors[k].rgb()) }
spec fn in_pal(colors: Seq<RGBA>, e: (usize, [u8; 3])) -> bool { exists|k: int| 0 <= k < colors.len() && e == #[trigger] pal_entry(colors, k) }

// the tree rooted at the last node holds exactly the palette entries (index, rgb) and is a well-formed k-d tree
spec fn tree_of(nodes: Seq<KDNode>, colors: Seq<RGBA>) -> bool {
    &&& nodes.len() == colors.len() <= usize::MAX
    &&& colors.len() > 0 ==> kd_wf(nodes, nodes.len() - 1)
    &&& forall|e: (usize, [u8; 3])| in_tree(nodes, nodes.len() - 1, e) <==> in_pal(colors, e)
}

proof fn lemma_tree_palette(nodes: Seq<KDNode>, colors: Seq<RGBA>)
    requires tree_of(nodes, colors), colors.len() > 0,
    ensures
        forall|j: int| in_sub(nodes, nodes.len() - 1, j) ==> 0 <= (#[trigger] entry(nodes[j])).0 < colors.len() && nodes[j].color == colors[entry(nodes[j]).0 as int].rgb(),
        forall|k: int| 0 <= k < colors.len() ==> exists|j: int| in_sub(nodes, nodes.len() - 1, j) && #[trigger] colors[k].rgb() == nodes[j].color,
{
    let root = nodes.len() - 1;
    assert forall|j: int| in_sub(nodes, root, j) implies 0 <= (#[trigger] entry(nodes[j])).0 < colors.len() && nodes[j].color == colors[entry(nodes[j]).0 as int].rgb() by {
        let e = entry(nodes[j]);
        assert(in_tree(nodes, root, e));
        assert(in_pal(colors, e));
        let k = choose|k: int| 0 <= k < colors.len() && e == pal_entry(colors, k);
    }
    assert forall|k: int| 0 <= k < colors.len() implies exists|j: int| in_sub(nodes, root, j) && #[trigger] colors[k].rgb() == nodes[j].color by {
        let e = pal_entry(colors, k);
        assert(in_pal(colors, e));
        assert(in_tree(nodes, root, e));
        let j = choose|j: int| in_sub(nodes, root, j) && e == entry(nodes[j]);
        assert(in_sub(nodes, root, j) && colors[k].rgb() == nodes[j].color);
    }
}

impl KDTree {
//@ fn impl KDTree :: new ret=t vis=strip
//@+ ensures tree_of(t.nodes@, colors@),
//@subst N5 nested fn extracted separately (above) /fn build_rec\([\s\S]*?(?=let mut nodes = Vec::new)//
//@subst N8 iterator adapter chain routed through its contract /let mut colors: Vec<_> = colors\.iter\(\)\.map\(\|c\| c\.to_rgb\(\)\)\.enumerate\(\)\.collect\(\);/let ghost pal = colors@; let mut colors: Vec<(usize, [u8; 3])> = enumerate_rgb(colors); let ghost c0 = colors@; proof { assert(c0.len() == colors.len()); }/
//@proof before:/Self\s\{\snodes\s\}/ proof { let root = nodes@.len() - 1; assert forall|e: (usize, [u8; 3])| in_tree(nodes@, root, e) <==> in_pal(pal, e) by { if c0.contains(e) { let k = choose|k: int| 0 <= k < c0.len() && c0[k] == e; assert(e == pal_entry(pal, k)); } if in_pal(pal, e) { let k = choose|k: int| 0 <= k < pal.len() && e == pal_entry(pal, k); assert(c0[k] == e); } if pal.len() == 0 { assert(!in_tree(nodes@, root, e)); } } }

//@ fn impl KDTree :: find ret=r vis=strip
//@+ requires self.nodes@.len() > 0, kd_wf(self.nodes@, self.nodes@.len() - 1),
//@+ ensures
//@+     exists|j: int| in_sub(self.nodes@, self.nodes@.len() - 1, j) && r.0 == entry(self.nodes@[j]).0 && r.1.rgb()@ == self.nodes@[j].color@
//@+         && forall|i: int| in_sub(self.nodes@, self.nodes@.len() - 1, i) ==> d2(color.rgb(), self.nodes@[j].color) <= d2(color.rgb(), #[trigger] self.nodes@[i].color),
//@+     r.1.alpha() == 255,
//@subst N5 nested fns extracted separately (above) /fn dist\(rgb[\s\S]*?(?=let node = find_rec)//
//@subst N4 array pattern replaced by indexed lets /let \[r, g, b\] = node\.color;/let r = node.color[0]; let g = node.color[1]; let b = node.color[2];/
//@subst N13 slice borrow of the node vector made explicit /find_rec\(&self\.nodes,/find_rec(self.nodes.as_slice(),/

}

impl ColorPalette {
    spec fn wf(&self) -> bool { self.colors@.len() > 0 && tree_of(self.kdtree.nodes@, self.colors@) }

//@ fn impl ColorPalette :: new ret=r vis=strip
//@+ ensures
//@+     colors@.len() == 0 ==> r is None,
//@+     colors@.len() > 0 ==> r is Some && r->Some_0.wf() && r->Some_0.colors@ == colors@,

//@ fn impl ColorPalette :: find ret=r vis=strip
//@+ requires self.wf(),
//@+ ensures
//@+     r.0 < self.colors@.len(),
//@+     r.1.rgb()@ == self.colors@[r.0 as int].rgb()@, r.1.alpha() == 255,
//@+     forall|k: int| 0 <= k < self.colors@.len() ==> d2(color.rgb(), self.colors@[r.0 as int].rgb()) <= d2(color.rgb(), #[trigger] self.colors@[k].rgb()),
//@proof start proof { lemma_tree_palette(self.kdtree.nodes@, self.colors@); }
}

} // verus!

fn main() {}
