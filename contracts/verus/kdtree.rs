//@ unit kdtree
//@ props C13
//@ source src/image.rs
#![allow(unused_imports, dead_code, unused_variables, unused_mut)]
use vstd::prelude::*;

verus! {

// ---------------------------------------------------------------- trusted prelude
// i32::pow(2) on channel differences (|x| <= 255): no overflow, value x*x
pub assume_specification[ i32::pow ](base: i32, exp: u32) -> (r: i32)
    requires exp == 2, -65536 < base < 65536,
    ensures r == base * base;

//@ item struct KDNode

// ---------------------------------------------------------------- specification
pub open spec fn sq(x: int) -> int { x * x }
// squared Euclidean RGB distance
pub open spec fn d2(t: [u8; 3], c: [u8; 3]) -> int {
    sq(t[0] as int - c[0] as int) + sq(t[1] as int - c[1] as int) + sq(t[2] as int - c[2] as int)
}
spec fn child_ok(nodes: Seq<KDNode>, i: int, c: Option<usize>) -> bool {
    c matches Some(k) ==> k < i
}
// j is a node of the subtree rooted at i
spec fn in_sub(nodes: Seq<KDNode>, i: int, j: int) -> bool
    decreases i,
{
    if i < 0 || i >= nodes.len() { false } else {
        j == i
        || (nodes[i].left matches Some(l) && (l as int) < i && in_sub(nodes, l as int, j))
        || (nodes[i].right matches Some(r) && (r as int) < i && in_sub(nodes, r as int, j))
    }
}
// k-d tree invariant of the subtree rooted at i: children precede their parent in the arena, the split
// dimension is valid, everything on the left is <= the node in that dimension, everything on the right >=
spec fn kd_wf(nodes: Seq<KDNode>, i: int) -> bool
    decreases i,
{
    &&& 0 <= i < nodes.len()
    &&& nodes[i].dim < 3
    &&& (nodes[i].left matches Some(l) ==> (l as int) < i && kd_wf(nodes, l as int)
            && forall|j: int| in_sub(nodes, l as int, j) ==> #[trigger] nodes[j].color[nodes[i].dim as int] <= nodes[i].color[nodes[i].dim as int])
    &&& (nodes[i].right matches Some(r) ==> (r as int) < i && kd_wf(nodes, r as int)
            && forall|j: int| in_sub(nodes, r as int, j) ==> #[trigger] nodes[j].color[nodes[i].dim as int] >= nodes[i].color[nodes[i].dim as int])
}

proof fn lemma_in_sub_range(nodes: Seq<KDNode>, i: int, j: int)
    requires in_sub(nodes, i, j),
    ensures 0 <= j <= i < nodes.len(),
    decreases i,
{
    if j != i {
        if nodes[i].left is Some && (nodes[i].left->Some_0 as int) < i && in_sub(nodes, nodes[i].left->Some_0 as int, j) {
            lemma_in_sub_range(nodes, nodes[i].left->Some_0 as int, j);
        } else {
            let r = nodes[i].right->Some_0;
            lemma_in_sub_range(nodes, r as int, j);
        }
    }
}

// one coordinate bounds the distance from below
proof fn lemma_d2_lower(t: [u8; 3], c: [u8; 3], k: int)
    requires 0 <= k < 3,
    ensures d2(t, c) >= sq(t[k] as int - c[k] as int),
{
    assert(sq(t[0] as int - c[0] as int) >= 0) by (nonlinear_arith);
    assert(sq(t[1] as int - c[1] as int) >= 0) by (nonlinear_arith);
    assert(sq(t[2] as int - c[2] as int) >= 0) by (nonlinear_arith);
}

// pruning argument: a point on the far side of the splitting plane is at least as far as the plane
proof fn lemma_far_side(tk: int, ck: int, xk: int)
    requires (tk < ck && xk >= ck) || (tk >= ck && xk <= ck),
    ensures sq(tk - xk) >= sq(tk - ck),
{
    assert(sq(tk - xk) >= sq(tk - ck)) by (nonlinear_arith)
        requires (tk < ck && xk >= ck) || (tk >= ck && xk <= ck);
}

//@ fn impl KDTree :: dist ret=r
//@+ ensures r == d2(rgb, node.color), 0 <= r <= 3 * 255 * 255,
//@subst N4 array pattern replaced by indexed lets /let \[r0, g0, b0\] = rgb;/let r0 = rgb[0]; let g0 = rgb[1]; let b0 = rgb[2];/
//@subst N4 array pattern replaced by indexed lets /let \[r1, g1, b1\] = node\.color;/let r1 = node.color[0]; let g1 = node.color[1]; let b1 = node.color[2];/
//@proof before:/\(r0\sas\si32/ proof { assert(sq(r0 as int - r1 as int) <= 255 * 255 && sq(g0 as int - g1 as int) <= 255 * 255 && sq(b0 as int - b1 as int) <= 255 * 255) by (nonlinear_arith) requires 0 <= r0 <= 255, 0 <= r1 <= 255, 0 <= g0 <= 255, 0 <= g1 <= 255, 0 <= b0 <= 255, 0 <= b1 <= 255; assert(sq(r0 as int - r1 as int) >= 0 && sq(g0 as int - g1 as int) >= 0 && sq(b0 as int - b1 as int) >= 0) by (nonlinear_arith); }

//@ fn impl KDTree :: find_rec ret=r
//@+ requires kd_wf(nodes@, index as int),
//@+ ensures
//@+     exists|j: int| in_sub(nodes@, index as int, j) && r.0 == nodes@[j],
//@+     r.1 == d2(target, r.0.color),
//@+     forall|j: int| in_sub(nodes@, index as int, j) ==> r.1 <= d2(target, #[trigger] nodes@[j].color),
//@+ decreases index,
//@proof after:/let\sother_dist\s=/ proof { if other_dist >= guess_dist && other is Some { let o = other->Some_0 as int; let dim = node.dim as int; assert forall|j: int| in_sub(nodes@, o, j) implies guess_dist <= d2(target, #[trigger] nodes@[j].color) by { lemma_d2_lower(target, nodes@[j].color, dim); lemma_far_side(target[dim] as int, node.color[dim] as int, nodes@[j].color[dim] as int); } } }

} // verus!

fn main() {}
