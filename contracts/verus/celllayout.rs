//@ unit celllayout
//@ props C09
//@ source src/render.rs
#![allow(unused_imports, dead_code, unused_variables, unused_mut)]
use vstd::prelude::*;

verus! {

global size_of usize == 8;

// N18: types the extracted function never inspects are opaque stand-ins (Face, Image, Glyph, ViewContext);
// CellKind and Cell themselves are extracted verbatim.
#[verifier::external_body] pub struct Face { _p: u8 }
#[verifier::external_body] pub struct Image { _p: u8 }
#[verifier::external_body] pub struct Glyph { _p: u8 }
#[verifier::external_body] pub struct ViewContext { _p: u8 }

//@ item struct Position src=src/terminal.rs
//@ item struct Size src=src/terminal.rs
//@ item enum CellKind
//@subst N1 remaining derives dropped (Clone/PartialEq/Eq need impls of the opaque stand-ins) /#\[derive\([^)]*\)\]//
//@ item struct Cell
//@subst N1 remaining derives dropped (Clone/PartialEq/Eq need impls of the opaque stand-ins) /#\[derive\([^)]*\)\]//

// std helpers used by the body
#[verifier::external_body]
fn max(a: usize, b: usize) -> (r: usize) ensures r == (if a >= b { a } else { b }) { std::cmp::max(a, b) }
#[verifier::external_body]
fn min(a: usize, b: usize) -> (r: usize) ensures r == (if a <= b { a } else { b }) { std::cmp::min(a, b) }

impl Cell {
    // what Cell::size returns (unicode-width / glyph / image geometry): any size - the layout contract below
    // holds whatever it is
    pub uninterp spec fn spec_size(&self, ctx: &ViewContext) -> Size;
    #[verifier::external_body]
    pub fn size(&self, ctx: &ViewContext) -> (r: Size)
        ensures r == self.spec_size(ctx),
    { unimplemented!() }

    pub closed spec fn is_char(&self, c: char) -> bool { self.kind == CellKind::Char(c) }
    pub closed spec fn is_special(&self) -> bool { self.is_char('\n') || self.is_char('\r') || self.is_char('\t') }

    //@ fn impl Cell :: layout ret=r
    //@+ requires
    //@+     // writer invariant and "the numbers are screen coordinates" (no usize overflow)
    //@+     old(cursor).col <= max_width, old(size).width <= max_width,
    //@+     old(cursor).row < 0x1_0000_0000_0000, old(size).height < 0x1_0000_0000_0000, max_width < 0x1_0000_0000_0000,
    //@+     self.spec_size(ctx).height < 0x1_0000_0000_0000, self.spec_size(ctx).width < 0x1_0000_0000_0000,
    //@+ ensures
    //@+     // invariant preserved; the tracked size is a growing bounding box inside the available width
    //@+     final(cursor).col <= max_width, final(size).width <= max_width,
    //@+     final(size).width >= old(size).width, final(size).height >= old(size).height,
    //@+     final(cursor).row >= old(cursor).row, final(cursor).row <= old(cursor).row + 1,
    //@+     ({ let cs = self.spec_size(ctx); let fits = old(cursor).col + cs.width <= max_width; let empty = cs.height == 0 || cs.width == 0;
    //@+        match r {
    //@+            Some(pos) => {
    //@+                &&& !self.is_special() && !empty
    //@+                // placed at the cursor when it fits, else (wrapping only) at the start of the next line
    //@+                &&& (if fits { pos == *old(cursor) && final(cursor).col == pos.col + cs.width && final(cursor).row == pos.row }
    //@+                     else { wraps && pos.row == old(cursor).row + 1 && pos.col == 0 && final(cursor).row == pos.row
    //@+                            && final(cursor).col == (if cs.width <= max_width { cs.width } else { max_width }) })
    //@+                // the bounding box covers the placed cell
    //@+                &&& final(size).height >= pos.row + cs.height
    //@+                &&& final(size).width >= (if pos.col + cs.width <= max_width { pos.col + cs.width } else { max_width as int })
    //@+            },
    //@+            // nothing is placed exactly for: newline / CR / tab, zero-sized cells, and overflow with wrapping disabled
    //@+            None => self.is_special() || empty || (!fits && !wraps),
    //@+        } }),
    //@+     // newline moves to the start of the next line and accounts the finished line in the box
    //@+     self.is_char('\n') ==> (final(cursor).col == 0 && final(cursor).row == old(cursor).row + 1 && final(size).height >= old(cursor).row + 1 && final(size).width >= old(cursor).col),
    //@+     self.is_char('\r') ==> (final(cursor).col == 0 && final(cursor).row == old(cursor).row && *final(size) == *old(size)),
    //@+     // tab advances to the next multiple of 8, clipped to the width
    //@+     self.is_char('\t') ==> (final(cursor).row == old(cursor).row && final(cursor).col > old(cursor).col || old(cursor).col == max_width)
    //@+         && (self.is_char('\t') ==> final(cursor).col <= old(cursor).col + 8),
}

} // verus!

fn main() {}
