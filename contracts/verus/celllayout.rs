//@ unit celllayout
//@ props C09
//@ source src/render.rs
#![allow(unused_imports, dead_code, unused_variables, unused_mut)]
use vstd::prelude::*;

verus! {

global size_of usize == 8;

//@ item struct Position src=src/terminal.rs
//@ item struct Size src=src/terminal.rs

//@ include cell_model.inc

} // verus!

fn main() {}
