//@ unit imagecells
//@ props C10 C09
//@ source src/image.rs
#![allow(unused_imports, dead_code, unused_variables, unused_mut)]
use vstd::prelude::*;

verus! {

global size_of usize == 8;

//@ include std_specs.inc

//@ item struct Size src=src/terminal.rs
impl Size {
    //@ fn impl Size :: new src=src/terminal.rs ret=r
    //@+ ensures r.height == height, r.width == width,

    //@ fn impl Size :: empty src=src/terminal.rs ret=r
    //@+ ensures r.height == 0, r.width == 0,

    //@ fn impl Size :: is_empty src=src/terminal.rs ret=r
    //@+ ensures r == (self.height == 0 || self.width == 0),
}

proof fn lemma_div_facts(a: int, b: int)
    requires 0 <= a, 0 < b,
    ensures
        a == (a / b) * b + a % b, 0 <= a % b < b, 0 <= a / b <= a,
        a % b != 0 ==> (a / b) < a,
        ((a / b) + 1) * b == (a / b) * b + b,
        ((a / b) - 1) * b == (a / b) * b - b,
{
    assert(a == (a / b) * b + a % b && 0 <= a % b < b && 0 <= a / b <= a) by (nonlinear_arith) requires 0 <= a, 0 < b;
    assert(((a / b) + 1) * b == (a / b) * b + b) by (nonlinear_arith);
    assert(((a / b) - 1) * b == (a / b) * b - b) by (nonlinear_arith);
    if a % b != 0 {
        assert(b >= 2);   // a % 1 == 0
        assert((a / b) < a) by (nonlinear_arith) requires 0 <= a, 2 <= b, a == (a / b) * b + a % b, 0 < a % b;
    }
}

// N18: the image is seen through the three Surface accessors the function uses
#[verifier::external_body]
pub struct Image { _p: u8 }
impl Image {
    pub uninterp spec fn spec_height(&self) -> usize;
    pub uninterp spec fn spec_width(&self) -> usize;
    #[verifier::external_body]
    fn height(&self) -> (r: usize) ensures r == self.spec_height() { unimplemented!() }
    #[verifier::external_body]
    fn width(&self) -> (r: usize) ensures r == self.spec_width() { unimplemented!() }
    #[verifier::external_body]
    fn size(&self) -> (r: Size) ensures r.height == self.spec_height(), r.width == self.spec_width() { unimplemented!() }

    //@ fn? impl Image :: round_up ret=r
    //@+ requires b > 0,
    //@+ ensures r * b >= a, a > 0 ==> (r - 1) * b < a, a == 0 ==> r == 0,
    //@proof start proof { lemma_div_facts(a as int, b as int); }

    //@ fn impl Image :: size_cells ret=r vis=strip
    //@+ ensures
    //@+     // the cells cover the image and one cell fewer would not (ceiling division); nothing for an empty image or an unknown cell size
    //@+     (self.spec_height() == 0 || self.spec_width() == 0 || pixels_per_cell.height == 0 || pixels_per_cell.width == 0) ==> r.height == 0 && r.width == 0,
    //@+     (self.spec_height() > 0 && self.spec_width() > 0 && pixels_per_cell.height > 0 && pixels_per_cell.width > 0) ==>
    //@+         r.height * pixels_per_cell.height >= self.spec_height() && (r.height - 1) * pixels_per_cell.height < self.spec_height()
    //@+         && r.width * pixels_per_cell.width >= self.spec_width() && (r.width - 1) * pixels_per_cell.width < self.spec_width(),
    //@proof start proof { if pixels_per_cell.height > 0 { lemma_div_facts(self.spec_height() as int, pixels_per_cell.height as int); } if pixels_per_cell.width > 0 { lemma_div_facts(self.spec_width() as int, pixels_per_cell.width as int); } }
    //@subst? N5 nested fn extracted separately (above) /fn round_up\(a: usize, b: usize\) -> usize \{[\s\S]*?\n        \}\n//
    //@subst? N5 nested fn call qualified /round_up\(self\./Image::round_up(self./
}

} // verus!

fn main() {}
