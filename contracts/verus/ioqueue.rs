//@ unit ioqueue
//@ props C16
//@ source src/common.rs
#![feature(allocator_api)]
#![allow(unused_imports, dead_code, unused_variables)]
use std::collections::VecDeque;
use std::io::{BufRead, Read, Write};
use vstd::prelude::*;

verus! {

//@ include std_specs.inc

// ---------------------------------------------------------------- trusted prelude
// std functions the extracted code calls that vstd does not specify; each is the
// documented std behaviour (assumed, listed in evidence.trusted_base).
pub assume_specification<T, A: std::alloc::Allocator>[ VecDeque::<T, A>::is_empty ](q: &VecDeque<T, A>) -> (r: bool)
    ensures r == (q@.len() == 0);

pub assume_specification<T, A: std::alloc::Allocator>[ VecDeque::<T, A>::front ](q: &VecDeque<T, A>) -> (r: Option<&T>)
    ensures
        q@.len() == 0 ==> r is None,
        q@.len() > 0 ==> r == Some(&q@[0]);

// std::io::Error is opaque to the proofs (N9: never constructed by the queue itself).
#[verifier::external_type_specification]
#[verifier::external_body]
pub struct ExIoError(std::io::Error);

// `<Vec<u8> as io::Write>::write` appends the whole buffer and reports its length.
pub assume_specification<A: std::alloc::Allocator>[ <Vec<u8, A> as std::io::Write>::write ](v: &mut Vec<u8, A>, buf: &[u8]) -> (r: std::io::Result<usize>)
    ensures
        final(v)@ == old(v)@ + buf@,
        r is Ok,
        r->Ok_0 == buf.len();

#[verifier::external_body]
fn deque_keep_first(q: &mut VecDeque<Vec<u8>>)
    requires old(q)@.len() > 1,
    ensures final(q)@ == old(q)@.subrange(0, 1),
{
    q.drain(1..);
}

pub assume_specification<T, U, F: FnOnce(T) -> U>[ Option::<T>::map_or ](o: Option<T>, d: U, f: F) -> (r: U)
    requires o matches Some(t) ==> f.requires((t,)),
    ensures match o { Some(t) => f.ensures((t,), r), None => r == d };
pub assume_specification<T, A: std::alloc::Allocator>[ VecDeque::<T, A>::back_mut ](q: &mut VecDeque<T, A>) -> (r: Option<&mut T>)
    ensures
        old(q)@.len() == 0 ==> r is None && final(q)@ == old(q)@,
        old(q)@.len() > 0 ==> r is Some && *(r->Some_0) == old(q)@.last()
            && final(q)@ == old(q)@.drop_last().push(*final(r->Some_0));

// N12: `std::cmp::min` on usize (generic over Ord in std, no vstd spec)
#[verifier::external_body]
fn min_usize(a: usize, b: usize) -> (r: usize)
    ensures r == (if a <= b { a } else { b }),
{
    std::cmp::min(a, b)
}

// ---------------------------------------------------------------- abstract view
pub open spec fn flat(s: Seq<Vec<u8>>) -> Seq<u8>
    decreases s.len(),
{
    if s.len() == 0 { Seq::<u8>::empty() } else { s[0]@ + flat(s.subrange(1, s.len() as int)) }
}

proof fn lemma_flat_nil(s: Seq<Vec<u8>>)
    requires s.len() == 0,
    ensures flat(s) == Seq::<u8>::empty(),
{
}

proof fn lemma_flat_push(s: Seq<Vec<u8>>, v: Vec<u8>)
    ensures flat(s.push(v)) == flat(s) + v@,
    decreases s.len(),
{
    if s.len() == 0 {
        lemma_flat_nil(s.push(v).subrange(1, 1));
        lemma_flat_nil(s);
        assert(flat(s.push(v)) =~= v@ + Seq::<u8>::empty());
        assert(flat(s) + v@ =~= v@);
    } else {
        let t = s.subrange(1, s.len() as int);
        lemma_flat_push(t, v);
        assert(s.push(v).subrange(1, s.len() as int + 1) =~= t.push(v));
        assert(flat(s.push(v)) =~= s[0]@ + (flat(t) + v@));
        assert(flat(s) + v@ =~= s[0]@ + flat(t) + v@);
    }
}

// replacing the last chunk by (last + b) appends b to the flattening
proof fn lemma_flat_append_last(s: Seq<Vec<u8>>, s2: Seq<Vec<u8>>, b: Seq<u8>)
    requires
        s.len() > 0,
        s2.len() == s.len(),
        forall|i: int| 0 <= i < s.len() - 1 ==> s2[i]@ == s[i]@,
        s2[s.len() - 1]@ == s[s.len() - 1]@ + b,
    ensures flat(s2) == flat(s) + b,
    decreases s.len(),
{
    if s.len() == 1 {
        lemma_flat_nil(s.subrange(1, 1));
        lemma_flat_nil(s2.subrange(1, 1));
        assert(flat(s2) =~= s2[0]@ + Seq::<u8>::empty());
        assert(flat(s) =~= s[0]@ + Seq::<u8>::empty());
        assert(flat(s2) =~= flat(s) + b);
    } else {
        let t = s.subrange(1, s.len() as int);
        let t2 = s2.subrange(1, s2.len() as int);
        assert forall|i: int| 0 <= i < t.len() - 1 implies t2[i]@ == t[i]@ by {
            assert(t2[i] == s2[i + 1]);
            assert(t[i] == s[i + 1]);
        }
        assert(t2[t.len() - 1] == s2[s.len() - 1]);
        assert(t[t.len() - 1] == s[s.len() - 1]);
        lemma_flat_append_last(t, t2, b);
        assert(flat(s2) =~= s2[0]@ + (flat(t) + b));
        assert(flat(s) + b =~= s[0]@ + flat(t) + b);
    }
}

// writing b to the last chunk appends b to the flattening
proof fn lemma_flat_write(sm: Seq<Vec<u8>>, v2: Vec<u8>, b: Seq<u8>)
    requires sm.len() > 0, v2@ == sm.last()@ + b,
    ensures flat(sm.drop_last().push(v2)) == flat(sm) + b,
{
    let dl = sm.drop_last();
    assert(sm =~= dl.push(sm.last()));
    lemma_flat_push(dl, sm.last());
    lemma_flat_push(dl, v2);
    assert(flat(dl) + v2@ =~= flat(dl) + sm.last()@ + b);
}

proof fn lemma_flat_push_empty(s: Seq<Vec<u8>>, v: Vec<u8>)
    requires v@.len() == 0,
    ensures flat(s.push(v)) == flat(s),
{
    lemma_flat_push(s, v);
    assert(flat(s) + v@ =~= flat(s));
}

proof fn lemma_flat_empty_chunk(s: Seq<Vec<u8>>)
    requires s.len() > 0, s[0]@.len() == 0,
    ensures flat(s) == flat(s.subrange(1, s.len() as int)),
{
    assert(flat(s) =~= s[0]@ + flat(s.subrange(1, s.len() as int)));
    assert(s[0]@ + flat(s.subrange(1, s.len() as int)) =~= flat(s.subrange(1, s.len() as int)));
}

proof fn lemma_flat_one(s: Seq<Vec<u8>>)
    requires s.len() == 1,
    ensures flat(s) == s[0]@,
{
    lemma_flat_nil(s.subrange(1, 1));
    assert(flat(s) =~= s[0]@ + Seq::<u8>::empty());
    assert(s[0]@ + Seq::<u8>::empty() =~= s[0]@);
}

//@ item struct IOQueue

impl IOQueue {
    // abstract state: the bytes that can still be read, in order
    pub closed spec fn bytes(&self) -> Seq<u8> {
        flat(self.chunks@).skip(self.offset as int)
    }
    pub closed spec fn chunks_view(&self) -> Seq<Vec<u8>> { self.chunks@ }
    pub closed spec fn front_off(&self) -> int { self.offset as int }
    pub closed spec fn length_field(&self) -> int { self.length as int }
    // the not-yet-read part of the front chunk (what as_slice returns)
    pub closed spec fn front_rest(&self) -> Seq<u8> {
        if self.chunks@.len() > 0 { self.chunks@[0]@.skip(self.offset as int) } else { Seq::<u8>::empty() }
    }
    // representation invariant, shape part: where the read offset may point
    pub closed spec fn shape_ok(&self) -> bool {
        &&& self.chunks@.len() == 0 ==> self.offset == 0
        &&& self.chunks@.len() > 0 ==> (self.offset < self.chunks@[0]@.len() || self.offset == 0)
    }
    // representation invariant: shape + the running length equals the readable bytes
    pub closed spec fn wf(&self) -> bool {
        &&& self.shape_ok()
        &&& self.length as int == flat(self.chunks@).len() - self.offset
    }
    proof fn lemma_front_is_prefix(&self)
        requires self.shape_ok(),
        ensures
            self.front_rest().len() <= self.bytes().len(),
            self.front_rest() == self.bytes().subrange(0, self.front_rest().len() as int),
    {
        if self.chunks@.len() > 0 {
            let s = self.chunks@;
            assert(flat(s) =~= s[0]@ + flat(s.subrange(1, s.len() as int)));
            assert(self.front_rest() =~= self.bytes().subrange(0, self.front_rest().len() as int));
        } else {
            assert(self.front_rest() =~= self.bytes().subrange(0, 0));
        }
    }

    //@ fn impl IOQueue :: new ret=r
    //@+ ensures r.wf(), r.bytes() == Seq::<u8>::empty(), r.chunks_view().len() == 0,
    //@subst N9 `Default::default()` of a VecDeque field spelled as its constructor /chunks: Default::default\(\)/chunks: VecDeque::new()/
    //@proof start proof { assert(flat(Seq::<Vec<u8>>::empty()) =~= Seq::<u8>::empty()); }

    //@ fn impl IOQueue :: is_empty ret=r
    //@+ ensures r == (self.chunks_view().len() == 0),

    //@ fn impl IOQueue :: len ret=r
    //@+ requires self.wf(),
    //@+ ensures r == self.bytes().len(),

    //@ fn impl IOQueue :: clear_but_last
    //@+ requires old(self).wf(),
    //@+ ensures
    //@+     final(self).wf(),
    //@+     final(self).front_off() == old(self).front_off(),
    //@+     // only whole chunks behind the one in flight are discarded: what remains is a prefix of the old chunk list that
    //@+     // still contains the front chunk (whose transmission may have started) - hence also every byte of it
    //@+     final(self).chunks_view().len() <= old(self).chunks_view().len(),
    //@+     old(self).chunks_view().len() >= 1 ==> final(self).chunks_view().len() >= 1,
    //@+     final(self).chunks_view() =~= old(self).chunks_view().subrange(0, final(self).chunks_view().len() as int),
    //@+     final(self).length_field() == final(self).bytes().len(),
    //@proof start proof { let s = old(self).chunks@; if s.len() > 0 { lemma_flat_one(s.subrange(0, 1)); if s.len() == 1 { assert(s.subrange(0, 1) =~= s); } } else { lemma_flat_nil(s); } }
    //@subst? N11 closure `|chunk| chunk.len()` annotated with its own body as ensures clause /\|chunk\| chunk\.len\(\)(?=\))/|chunk: &Vec<u8>| -> (n: usize) ensures n == chunk.len() { chunk.len() }/
    //@subst? N8 `VecDeque::drain(1..)` statement (iterator dropped at once) replaced by a call specified as "keep the first element" /self\.chunks\.drain\(1\.\.\);/deque_keep_first(&mut self.chunks);/

    //@ fn impl IOQueue :: chunks_count ret=r
    //@+ ensures r == self.chunks_view().len(),

    //@ fn impl IOQueue :: as_slice ret=r
    //@+ requires self.shape_ok(),
    //@+ ensures
    //@+     r@ == self.front_rest(),
    //@+     r@.len() <= self.bytes().len(),
    //@+     r@ == self.bytes().subrange(0, r@.len() as int),
    //@proof start proof { self.lemma_front_is_prefix(); }

    //@ fn impl IOQueue :: consume
    //@+ requires old(self).wf(), amt <= old(self).front_rest().len(),
    //@+ ensures
    //@+     final(self).wf(),
    //@+     final(self).bytes() == old(self).bytes().skip(amt as int),
    //@+     final(self).length_field() == old(self).length_field() - amt,
    //@+     // a front chunk whose rest is consumed completely (in particular an empty one, with amt == 0) is removed: it cannot block
    //@+     // the chunks behind it; a partly consumed one stays
    //@+     old(self).chunks_view().len() > 0 && amt == old(self).front_rest().len() ==> final(self).chunks_view() =~= old(self).chunks_view().skip(1),
    //@+     old(self).chunks_view().len() > 0 && amt < old(self).front_rest().len() ==> final(self).chunks_view() =~= old(self).chunks_view(),
    //@subst N11 closure `|chunk| chunk.len()` annotated with its own body as ensures clause /\|chunk\| chunk\.len\(\)/|chunk: &Vec<u8>| -> (n: usize) ensures n == chunk.len() { chunk.len() }/
    //@proof start proof { old(self).lemma_front_is_prefix(); let s = old(self).chunks@; if s.len() > 0 { let rest = s.subrange(1, s.len() as int); assert(flat(s) =~= s[0]@ + flat(rest)); assert(s[0]@.len() == s[0].len()); assert(old(self).front_rest().len() == s[0]@.len() - old(self).offset); assert(old(self).offset + amt <= s[0].len()); assert((s[0]@ + flat(rest)).skip(s[0]@.len() as int) =~= flat(rest)); assert(flat(rest).skip(0) =~= flat(rest)); assert(flat(s).skip(old(self).offset as int).skip(amt as int) =~= flat(s).skip(old(self).offset as int + amt as int)); } else { assert(old(self).bytes().skip(0) =~= old(self).bytes()); } }

    //@ fn impl IOQueue :: consume_with ret=r
    //@+ requires
    //@+     old(self).wf(),
    //@+     forall|s: &[u8]| s@ == old(self).front_rest() ==> consumer.requires((s,)),
    //@+     forall|s: &[u8], k: usize| consumer.ensures((s,), Ok::<usize, FE>(k)) ==> k <= s@.len(),
    //@+ ensures
    //@+     final(self).wf(),
    //@+     match r {
    //@+         Ok(k) => k <= old(self).front_rest().len() && final(self).bytes() == old(self).bytes().skip(k as int)
    //@+             && (old(self).chunks_view().len() > 0 && k == old(self).front_rest().len() ==> final(self).chunks_view() =~= old(self).chunks_view().skip(1)),
    //@+         Err(_) => final(self).bytes() == old(self).bytes() && final(self).chunks_view() == old(self).chunks_view(),
    //@+     },

    // ---- impl Write for IOQueue (N5: re-homed as inherent methods, bodies verbatim)
    //@ fn impl Write for IOQueue :: write ret=r
    //@+ requires old(self).wf(), old(self).length_field() + buf@.len() <= usize::MAX,
    //@+ ensures
    //@+     final(self).wf(),
    //@+     final(self).bytes() =~= old(self).bytes() + buf@,
    //@+     // frames are flush-delimited chunks: a write never starts a new one (it only creates the very first chunk), and it
    //@+     // leaves every chunk but the last untouched - so frame dropping can never cut a frame in the middle
    //@+     final(self).chunks_view().len() == (if old(self).chunks_view().len() == 0 { 1 } else { old(self).chunks_view().len() }),
    //@+     forall|i: int| 0 <= i < old(self).chunks_view().len() - 1 ==> final(self).chunks_view()[i] == old(self).chunks_view()[i],
    //@+     r == Ok::<usize, std::io::Error>(buf@.len() as usize),
    //@proof start proof { let s = old(self).chunks@; assert forall|sm: Seq<Vec<u8>>, v2: Vec<u8>| sm.len() > 0 && v2@ == sm.last()@ + buf@ implies #[trigger] flat(sm.drop_last().push(v2)) == flat(sm) + buf@ by { lemma_flat_write(sm, v2, buf@); } assert forall|v: Vec<u8>| v@.len() == 0 implies #[trigger] flat(s.push(v)) == flat(s) by { lemma_flat_push_empty(s, v); } }

    //@ fn impl Write for IOQueue :: flush ret=r
    //@+ requires old(self).wf(),
    //@+ ensures
    //@+     final(self).wf(),
    //@+     final(self).bytes() =~= old(self).bytes(),
    //@+     // flush only ever closes the current frame: existing chunks are untouched and at most one (empty) chunk is opened after them
    //@+     old(self).chunks_view().len() <= final(self).chunks_view().len() <= old(self).chunks_view().len() + 1,
    //@+     forall|i: int| 0 <= i < old(self).chunks_view().len() ==> final(self).chunks_view()[i] == old(self).chunks_view()[i],
    //@+     final(self).chunks_view().len() == old(self).chunks_view().len() + 1 ==> final(self).chunks_view().last()@.len() == 0,
    //@+     final(self).chunks_view().len() >= old(self).chunks_view().len(),
    //@+     r is Ok,
    //@proof start proof { let s = old(self).chunks@; assert forall|v: Vec<u8>| v@.len() == 0 implies #[trigger] flat(s.push(v)) == flat(s) by { lemma_flat_push_empty(s, v); } }

    // ---- impl Read for IOQueue
    //@ fn impl Read for IOQueue :: read ret=r
    //@+ requires old(self).wf(),
    //@+ ensures
    //@+     final(self).wf(),
    //@+     final(buf)@.len() == old(buf)@.len(),
    //@+     match r {
    //@+         Ok(n) => {
    //@+             &&& n == (if old(buf)@.len() <= old(self).front_rest().len() { old(buf)@.len() } else { old(self).front_rest().len() })
    //@+             &&& final(buf)@.subrange(0, n as int) =~= old(self).bytes().subrange(0, n as int)
    //@+             &&& final(self).bytes() =~= old(self).bytes().skip(n as int)
    //@+         },
    //@+         Err(_) => false,
    //@+     },
    //@subst N12 std::cmp::min on usize routed through its specification /std::cmp::min\(/min_usize(/
    //@proof start proof { old(self).lemma_front_is_prefix(); }

    // ---- impl BufRead for IOQueue
    //@ fn impl BufRead for IOQueue :: fill_buf ret=r
    //@+ requires old(self).wf(),
    //@+ ensures
    //@+     final(self).wf(), final(self).bytes() == old(self).bytes(), final(self).chunks_view() == old(self).chunks_view(),
    //@+     match r { Ok(s) => s@ == old(self).front_rest(), Err(_) => false },

    //@ fn impl BufRead for IOQueue :: consume as=bufread_consume
    //@+ requires old(self).wf(), amt <= old(self).front_rest().len(),
    //@+ ensures
    //@+     final(self).wf(),
    //@+     final(self).bytes() == old(self).bytes().skip(amt as int),
}

} // verus!

fn main() {}
