//@ unit numdec
//@ props C02 C04
//@ source src/decoder.rs
#![allow(unused_imports, dead_code, unused_variables)]
use vstd::prelude::*;

verus! {

//@ include std_specs.inc

// ---------------------------------------------------------------- specs (written from the statement)
pub open spec fn is_digit(b: u8) -> bool { 48 <= b <= 57 }
pub open spec fn all_digits(s: Seq<u8>) -> bool { forall|i: int| 0 <= i < s.len() ==> is_digit(#[trigger] s[i]) }
// the number a decimal digit string denotes
pub open spec fn dec(s: Seq<u8>) -> nat
    decreases s.len(),
{
    if s.len() == 0 { 0 } else { dec(s.drop_last()) * 10 + (s.last() - 48) as nat }
}
pub open spec fn sat(n: nat) -> usize { if n > usize::MAX { usize::MAX } else { n as usize } }

proof fn lemma_dec_step(s: Seq<u8>, k: int)
    requires 0 <= k < s.len(),
    ensures dec(s.subrange(0, k + 1)) == dec(s.subrange(0, k)) * 10 + (s[k] - 48) as nat,
{
    let t = s.subrange(0, k + 1);
    assert(t.drop_last() =~= s.subrange(0, k));
    assert(t.last() == s[k]);
}

//@ fn - :: number_decode ret=r
//@+ ensures
//@+     all_digits(data@) ==> r == Some(sat(dec(data@))),
//@+     !all_digits(data@) ==> r is None,
//@forit 1 it
//@loop 1 invariant
//@loop 1     it.index@ <= data@.len(),
//@loop 1     forall|j: int| 0 <= j < it.index@ ==> is_digit(#[trigger] data@[j]),
//@loop 1     result == sat(dec(data@.subrange(0, it.index@ as int))),
//@proof loop1.start proof { lemma_dec_step(data@, it.index@ as int); }
//@proof before:/Some\(result\)/ proof { assert(data@.subrange(0, data@.len() as int) =~= data@); }

// ---------------------------------------------------------------- C04: every transmitted number is read back exactly
// decimal rendering of n (what a terminal sends / `Display for usize` prints; the link to core::fmt is assumed)
pub open spec fn digits(n: nat) -> Seq<u8>
    decreases n,
{
    if n < 10 { seq![(48 + n) as u8] } else { digits(n / 10).push((48 + n % 10) as u8) }
}

proof fn lemma_digits_roundtrip(n: nat)
    ensures all_digits(digits(n)), dec(digits(n)) == n, digits(n).len() >= 1,
    decreases n,
{
    if n < 10 {
        let s = digits(n);
        assert(s.len() == 1 && s[0] == (48 + n) as u8);
        assert(s.drop_last().len() == 0);
        assert(dec(s.drop_last()) == 0);
        assert(dec(s) == dec(s.drop_last()) * 10 + (s.last() - 48) as nat);
    } else {
        lemma_digits_roundtrip(n / 10);
        let p = digits(n / 10);
        let s = p.push((48 + n % 10) as u8);
        assert(s.drop_last() =~= p);
        assert(s.last() == (48 + n % 10) as u8);
        assert(dec(s) == dec(p) * 10 + (s.last() - 48) as nat);
        assert forall|i: int| 0 <= i < s.len() implies is_digit(#[trigger] s[i]) by {
            if i < p.len() { assert(s[i] == p[i]); }
        }
    }
}

// the contract of number_decode + the lemma: a printed usize is decoded to itself
proof fn lemma_number_roundtrip(n: usize)
    ensures all_digits(digits(n as nat)), sat(dec(digits(n as nat))) == n,
{
    lemma_digits_roundtrip(n as nat);
}

// ---------------------------------------------------------------- utf8_decode
// shape that `utf8_nfa` accepts (first-byte class + 10xxxxxx tails); the link to the compiled DFA is assumed
pub open spec fn is_tail(b: u8) -> bool { b >> 6 == 0b10u8 }
pub open spec fn utf8_shape(s: Seq<u8>) -> bool {
    ||| (s.len() == 1 && s[0] >> 7 == 0u8)
    ||| (s.len() == 2 && s[0] >> 5 == 0b110u8 && is_tail(s[1]))
    ||| (s.len() == 3 && s[0] >> 4 == 0b1110u8 && is_tail(s[1]) && is_tail(s[2]))
    ||| (s.len() == 4 && s[0] >> 3 == 0b11110u8 && is_tail(s[1]) && is_tail(s[2]) && is_tail(s[3]))
}
// code point denoted by a shape-valid sequence (RFC 3629: payload bits of the first byte, then 6 bits per tail)
pub open spec fn first_bits(s: Seq<u8>) -> u32 {
    if s.len() == 1 { (s[0] as u32) & 127 } else if s.len() == 2 { (s[0] as u32) & 31 } else if s.len() == 3 { (s[0] as u32) & 15 } else { (s[0] as u32) & 7 }
}
pub open spec fn partial(s: Seq<u8>, k: nat) -> u32
    decreases k,
{
    if k == 0 { first_bits(s) } else { (partial(s, (k - 1) as nat) << 6) | ((s[k as int] as u32) & 63) }
}
pub open spec fn utf8_value(s: Seq<u8>) -> u32 { partial(s, (s.len() - 1) as nat) }
// RFC 3629 encoder (what a terminal sends for a typed character), and the read-back lemma for C04
pub open spec fn utf8_enc(c: u32) -> Seq<u8> {
    if c < 0x80 { seq![c as u8] }
    else if c < 0x800 { seq![(0xC0u32 | (c >> 6)) as u8, (0x80u32 | (c & 63)) as u8] }
    else if c < 0x10000 { seq![(0xE0u32 | (c >> 12)) as u8, (0x80u32 | ((c >> 6) & 63)) as u8, (0x80u32 | (c & 63)) as u8] }
    else { seq![(0xF0u32 | (c >> 18)) as u8, (0x80u32 | ((c >> 12) & 63)) as u8, (0x80u32 | ((c >> 6) & 63)) as u8, (0x80u32 | (c & 63)) as u8] }
}

proof fn lemma_utf8_roundtrip(c: u32)
    requires c <= 0x10FFFF,
    ensures utf8_shape(utf8_enc(c)), utf8_value(utf8_enc(c)) == c,
{
    let s = utf8_enc(c);
    if c < 0x80 {
        assert(s.len() == 1 && s[0] == c as u8);
        assert((c as u8) >> 7 == 0u8 && ((c as u8) as u32) & 127 == c) by (bit_vector) requires c < 0x80;
        assert(partial(s, 0) == first_bits(s));
    } else if c < 0x800 {
        let b0 = (0xC0u32 | (c >> 6)) as u8;
        let b1 = (0x80u32 | (c & 63)) as u8;
        assert(s.len() == 2 && s[0] == b0 && s[1] == b1);
        assert(b0 >> 5 == 0b110u8 && b1 >> 6 == 0b10u8 && (((b0 as u32) & 31) << 6) | ((b1 as u32) & 63) == c) by (bit_vector)
            requires 0x80 <= c < 0x800, b0 == (0xC0u32 | (c >> 6)) as u8, b1 == (0x80u32 | (c & 63)) as u8;
        assert(partial(s, 0) == first_bits(s));
        assert(partial(s, 1) == (partial(s, 0) << 6) | ((s[1] as u32) & 63));
    } else if c < 0x10000 {
        let b0 = (0xE0u32 | (c >> 12)) as u8;
        let b1 = (0x80u32 | ((c >> 6) & 63)) as u8;
        let b2 = (0x80u32 | (c & 63)) as u8;
        assert(s.len() == 3 && s[0] == b0 && s[1] == b1 && s[2] == b2);
        assert(b0 >> 4 == 0b1110u8 && b1 >> 6 == 0b10u8 && b2 >> 6 == 0b10u8
            && (((((b0 as u32) & 15) << 6) | ((b1 as u32) & 63)) << 6) | ((b2 as u32) & 63) == c) by (bit_vector)
            requires 0x800 <= c < 0x10000, b0 == (0xE0u32 | (c >> 12)) as u8, b1 == (0x80u32 | ((c >> 6) & 63)) as u8, b2 == (0x80u32 | (c & 63)) as u8;
        assert(partial(s, 0) == first_bits(s));
        assert(partial(s, 1) == (partial(s, 0) << 6) | ((s[1] as u32) & 63));
        assert(partial(s, 2) == (partial(s, 1) << 6) | ((s[2] as u32) & 63));
    } else {
        let b0 = (0xF0u32 | (c >> 18)) as u8;
        let b1 = (0x80u32 | ((c >> 12) & 63)) as u8;
        let b2 = (0x80u32 | ((c >> 6) & 63)) as u8;
        let b3 = (0x80u32 | (c & 63)) as u8;
        assert(s.len() == 4 && s[0] == b0 && s[1] == b1 && s[2] == b2 && s[3] == b3);
        assert(b0 >> 3 == 0b11110u8 && b1 >> 6 == 0b10u8 && b2 >> 6 == 0b10u8 && b3 >> 6 == 0b10u8
            && (((((((b0 as u32) & 7) << 6) | ((b1 as u32) & 63)) << 6) | ((b2 as u32) & 63)) << 6) | ((b3 as u32) & 63) == c) by (bit_vector)
            requires 0x10000 <= c <= 0x10FFFF, b0 == (0xF0u32 | (c >> 18)) as u8, b1 == (0x80u32 | ((c >> 12) & 63)) as u8,
                b2 == (0x80u32 | ((c >> 6) & 63)) as u8, b3 == (0x80u32 | (c & 63)) as u8;
        assert(partial(s, 0) == first_bits(s));
        assert(partial(s, 1) == (partial(s, 0) << 6) | ((s[1] as u32) & 63));
        assert(partial(s, 2) == (partial(s, 1) << 6) | ((s[2] as u32) & 63));
        assert(partial(s, 3) == (partial(s, 2) << 6) | ((s[3] as u32) & 63));
    }
}

pub open spec fn is_scalar(c: u32) -> bool { c <= 0x10FFFF && !(0xD800 <= c <= 0xDFFF) }

// std safety contract of from_u32_unchecked (UB unless the argument is a Unicode scalar value)
pub assume_specification[ std::char::from_u32_unchecked ](c: u32) -> (r: char)
    requires is_scalar(c),
    ensures r as u32 == c;

// safe variant (used by the repaired code)
pub assume_specification[ char::from_u32 ](c: u32) -> (r: Option<char>)
    ensures
        is_scalar(c) ==> r is Some && r->Some_0 as u32 == c,
        !is_scalar(c) ==> r is None;

//@ fn - :: utf8_decode ret=r
//@+ requires utf8_shape(slice@),
//@+ ensures
//@+     is_scalar(utf8_value(slice@)) ==> r as u32 == utf8_value(slice@),
//@subst? N13 std constant char::REPLACEMENT_CHARACTER inlined as its literal value /char::REPLACEMENT_CHARACTER/'\u{FFFD}'/
//@forit 1 it
//@loop 1 invariant
//@loop 1     1 <= slice@.len() <= 4,
//@loop 1     it.index@ <= slice@.len() - 1,
//@loop 1     code == partial(slice@, it.index@ as nat),

} // verus!

fn main() {}
