//@ unit ttywriter
//@ props C06 C09
//@ source src/render.rs
#![allow(unused_imports, dead_code, unused_variables, unused_mut)]
use vstd::prelude::*;

verus! {

global size_of usize == 8;

// io::Error, the byte cursor stand-in (N6) and the std specs shared with the other units
//@ include utf8_model.inc

//@ item struct Position src=src/terminal.rs

// ---------------------------------------------------------------- stand-ins (N18): types the loop never looks into
#[verifier::external_body] #[derive(Clone, Copy)] pub struct Face { _p: u8 }
#[verifier::external_body] pub struct Image { _p: u8 }
#[verifier::external_body] #[derive(Clone, Copy)] pub struct FaceModify { _p: u8 }
impl FaceModify {
    // FaceModify::apply: its SGR semantics are proved by the Kani harnesses c06_apply_*; here it is "a function of (modification, face)"
    pub uninterp spec fn spec_apply(self, face: Face) -> Face;
    #[verifier::external_body]
    pub fn apply(&self, face: Face) -> (r: Face) ensures r == self.spec_apply(face) { unimplemented!() }
}
// TerminalCommand reduced to the three variants the writer draws plus one catch-all for every other command
pub enum TerminalCommand { Char(char), FaceModify(FaceModify), Image(Image, Position), Other }

// the escape-sequence decoder (a compiled automaton, C03/C15): any decoder that makes progress; what it has decoded so far is a ghost log
#[verifier::external_body]
pub struct TTYCommandDecoder { _p: u8 }
impl TTYCommandDecoder {
    pub uninterp spec fn decoded(&self) -> Seq<TerminalCommand>;
    #[verifier::external_body]
    pub fn decode(&mut self, buf: &mut ByteCursor) -> (r: Result<Option<TerminalCommand>, std::io::Error>)
        ensures
            final(buf).rest().len() <= old(buf).rest().len(),
            final(buf).pos() + final(buf).rest().len() == old(buf).pos() + old(buf).rest().len(),
            match r {
                Ok(Some(cmd)) => final(self).decoded() == old(self).decoded().push(cmd) && final(buf).rest().len() < old(buf).rest().len(),
                _ => final(self).decoded() == old(self).decoded(),
            },
    { unimplemented!() }
}

// ---------------------------------------------------------------- the parent the commands are forwarded to, with a ghost log of what it was asked to do
pub enum Ev { Char(char, Face), SetFace(Face), Image(Image) }
pub trait CellWrite {
    spec fn spec_face(&self) -> Face;
    spec fn log(&self) -> Seq<Ev>;
    fn face(&self) -> (r: Face)
        ensures r == self.spec_face();
    fn set_face(&mut self, face: Face) -> (r: Face)
        ensures final(self).spec_face() == face, final(self).log() == old(self).log().push(Ev::SetFace(face));
    // put_char / put_image are default methods of the real trait (put_cell of a cell built with the current face)
    fn put_char(&mut self, character: char) -> (r: bool)
        ensures final(self).spec_face() == old(self).spec_face(), final(self).log() == old(self).log().push(Ev::Char(character, old(self).spec_face()));
    fn put_image(&mut self, image: Image) -> (r: bool)
        ensures final(self).spec_face() == old(self).spec_face(), final(self).log() == old(self).log().push(Ev::Image(image));
}

// ---------------------------------------------------------------- specification: what a command sequence asks of the parent
pub open spec fn fwd_step(st: (Seq<Ev>, Face), cmd: TerminalCommand) -> (Seq<Ev>, Face) {
    match cmd {
        TerminalCommand::Char(c) => (st.0.push(Ev::Char(c, st.1)), st.1),
        // an SGR change is applied ON TOP of the face current at that moment and becomes the current face
        TerminalCommand::FaceModify(m) => (st.0.push(Ev::SetFace(m.spec_apply(st.1))), m.spec_apply(st.1)),
        TerminalCommand::Image(i, _) => (st.0.push(Ev::Image(i)), st.1),
        TerminalCommand::Other => st,
    }
}
pub open spec fn fwd(cmds: Seq<TerminalCommand>, log0: Seq<Ev>, face0: Face) -> (Seq<Ev>, Face)
    decreases cmds.len(),
{
    if cmds.len() == 0 { (log0, face0) } else { fwd_step(fwd(cmds.drop_last(), log0, face0), cmds.last()) }
}

//@ item struct TTYCellWriter
//@subst N20 field visibility widened to pub so that the contract may mention the fields (no effect on behaviour) /(?m)^(\s+)(\w+): /\1pub \2: /

impl<W: CellWrite> TTYCellWriter<W> {
    //@ fn impl<W> std::io::Write for TTYCellWriter<W> :: write ret=r
    //@+ ensures
    //@+     // every command the decoder produced during this call was forwarded, in order: characters with the face current at that
    //@+     // moment, SGR changes applied on top of the current face, images as they are, everything else ignored
    //@+     ({ let k = old(self).decoder.decoded().len() as int; let d = final(self).decoder.decoded();
    //@+        &&& d.len() >= k && d.subrange(0, k) == old(self).decoder.decoded()
    //@+        &&& (final(self).parent.log(), final(self).parent.spec_face()) == fwd(d.subrange(k, d.len() as int), old(self).parent.log(), old(self).parent.spec_face()) }),
    //@+     r matches Ok(n) ==> n <= buf@.len(),
    //@proof start let ghost d0 = old(self).decoder.decoded(); let ghost k = d0.len() as int; let ghost log0 = old(self).parent.log(); let ghost face0 = old(self).parent.spec_face(); let ghost mut seen = d0; proof { assert(d0.subrange(k, k) =~= Seq::<TerminalCommand>::empty()); assert(d0.subrange(0, k) =~= d0); }
    //@loop 1 invariant
    //@loop 1     d0 == old(self).decoder.decoded(), k == d0.len(), log0 == old(self).parent.log(), face0 == old(self).parent.spec_face(),
    //@loop 1     seen == self.decoder.decoded(),
    //@loop 1     self.decoder.decoded().len() >= k, self.decoder.decoded().subrange(0, k) == d0,
    //@loop 1     (self.parent.log(), self.parent.spec_face()) == fwd(self.decoder.decoded().subrange(k, self.decoder.decoded().len() as int), log0, face0),
    //@loop 1     cur.pos() + cur.rest().len() == buf@.len(),
    //@loop 1 decreases cur.rest().len(),
    //@proof loop1.start proof { let d = self.decoder.decoded(); let n = d.len() as int; assert(d == seen.push(cmd)); assert(d.subrange(k, n).drop_last() =~= seen.subrange(k, n - 1)); assert(d.subrange(k, n).last() == cmd); assert(d.subrange(0, k) =~= seen.subrange(0, k)); seen = d; }
    //@subst N6 io::Cursor over the byte slice instantiated with the cursor stand-in /std::io::Cursor::new\(buf\)/ByteCursor::new(buf)/
    //@subst N9 error conversion dropped (error values are opaque here) /\s*\.map_err\(std::io::Error::other\)//
}

} // verus!

fn main() {}
