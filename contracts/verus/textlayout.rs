//@ unit textlayout
//@ props C09
//@ source src/render.rs
#![allow(unused_imports, dead_code, unused_variables, unused_mut)]
use vstd::prelude::*;

verus! {

global size_of usize == 8;

//@ item struct Position src=src/terminal.rs
//@ item struct Size src=src/terminal.rs

// Cell, CellKind, Cell::layout with its contract and the functional model `lay` (tied to the real body by the /*sync*/ clause,
// which this unit re-proves from the extracted code)
//@ include cell_model.inc

// ---------------------------------------------------------------- measuring and writing agree
// Text::layout measures a text by folding Cell::layout over its cells with the width of the constraint; Text::render writes
// the same cells with the width of the surface it is given - the size the layout reported. The lemmas below show, over the
// functional model of Cell::layout, that both folds place every cell at the same position and that every placed cell lies
// inside the reported size.

// state after the first n cells, starting from an empty size at the origin
pub open spec fn run(cells: Seq<Cell>, ctx: &ViewContext, mw: int, wraps: bool, n: nat) -> LSt
    decreases n,
{
    if n == 0 { LSt { w: 0, h: 0, row: 0, col: 0 } } else { cells[n - 1].lay(ctx, mw, wraps, run(cells, ctx, mw, wraps, (n - 1) as nat)).1 }
}
// where cell i is put (None: nothing is placed for it)
pub open spec fn pos_at(cells: Seq<Cell>, ctx: &ViewContext, mw: int, wraps: bool, i: nat) -> Option<(int, int)> {
    cells[i as int].lay(ctx, mw, wraps, run(cells, ctx, mw, wraps, i)).0
}
pub open spec fn st_ok(s: LSt, mw: int) -> bool { 0 <= s.col <= s.w <= mw && 0 <= s.row && 0 <= s.h }

// one step: the state stays well-formed, the tracked size only grows, and a placed cell lies inside the grown size
proof fn lemma_step(c: Cell, ctx: &ViewContext, mw: int, wraps: bool, s: LSt)
    requires st_ok(s, mw), mw >= 1,
    ensures
        st_ok(c.lay(ctx, mw, wraps, s).1, mw),
        c.lay(ctx, mw, wraps, s).1.w >= s.w, c.lay(ctx, mw, wraps, s).1.h >= s.h, c.lay(ctx, mw, wraps, s).1.row >= s.row,
        c.lay(ctx, mw, wraps, s).0 matches Some(p) ==> 0 <= p.0 < c.lay(ctx, mw, wraps, s).1.h && 0 <= p.1 < c.lay(ctx, mw, wraps, s).1.w && p.0 >= s.row,
{
}

// one step with a smaller available width that still covers what the step needs: same result
proof fn lemma_step_agree(c: Cell, ctx: &ViewContext, mw: int, mw2: int, wraps: bool, s: LSt)
    requires st_ok(s, mw2), mw2 <= mw, c.lay(ctx, mw, wraps, s).1.w <= mw2,
    ensures c.lay(ctx, mw2, wraps, s) == c.lay(ctx, mw, wraps, s),
{
}

proof fn lemma_run_ok(cells: Seq<Cell>, ctx: &ViewContext, mw: int, wraps: bool, n: nat)
    requires mw >= 1, n <= cells.len(),
    ensures st_ok(run(cells, ctx, mw, wraps, n), mw),
    decreases n,
{
    if n > 0 { lemma_run_ok(cells, ctx, mw, wraps, (n - 1) as nat); lemma_step(cells[n - 1], ctx, mw, wraps, run(cells, ctx, mw, wraps, (n - 1) as nat)); }
}

proof fn lemma_run_mono(cells: Seq<Cell>, ctx: &ViewContext, mw: int, wraps: bool, n: nat, m: nat)
    requires mw >= 1, n <= m <= cells.len(),
    ensures run(cells, ctx, mw, wraps, n).w <= run(cells, ctx, mw, wraps, m).w, run(cells, ctx, mw, wraps, n).h <= run(cells, ctx, mw, wraps, m).h,
    decreases m,
{
    if n < m {
        lemma_run_mono(cells, ctx, mw, wraps, n, (m - 1) as nat);
        lemma_run_ok(cells, ctx, mw, wraps, (m - 1) as nat);
        lemma_step(cells[m - 1], ctx, mw, wraps, run(cells, ctx, mw, wraps, (m - 1) as nat));
    }
}

// THEOREM (agreement): let (W, H) be the size measured with available width mw. Writing with any available width mw2 between
// W and mw - in particular into a surface exactly W wide - goes through the same states and puts every cell at the same position
proof fn theorem_agree(cells: Seq<Cell>, ctx: &ViewContext, mw: int, mw2: int, wraps: bool, n: nat)
    requires mw >= 1, mw2 >= 1, run(cells, ctx, mw, wraps, cells.len()).w <= mw2 <= mw, n <= cells.len(),
    ensures
        run(cells, ctx, mw2, wraps, n) == run(cells, ctx, mw, wraps, n),
        n < cells.len() ==> pos_at(cells, ctx, mw2, wraps, n) == pos_at(cells, ctx, mw, wraps, n),
    decreases n,
{
    if n > 0 {
        theorem_agree(cells, ctx, mw, mw2, wraps, (n - 1) as nat);
    }
    // state n agrees; the step from it agrees because what it needs fits below the final width
    let s = run(cells, ctx, mw, wraps, n);
    lemma_run_ok(cells, ctx, mw, wraps, n);
    if n < cells.len() {
        lemma_run_mono(cells, ctx, mw, wraps, n + 1, cells.len());
        lemma_run_mono(cells, ctx, mw, wraps, n, cells.len());
        assert(s.w <= mw2);
        lemma_step_agree(cells[n as int], ctx, mw, mw2, wraps, s);
    }
    if n > 0 {
        let s0 = run(cells, ctx, mw, wraps, (n - 1) as nat);
        lemma_run_ok(cells, ctx, mw, wraps, (n - 1) as nat);
        lemma_run_mono(cells, ctx, mw, wraps, n, cells.len());
        lemma_run_mono(cells, ctx, mw, wraps, (n - 1) as nat, cells.len());
        lemma_step_agree(cells[n - 1], ctx, mw, mw2, wraps, s0);
    }
}

// THEOREM (nothing falls outside): every cell that gets a position lies inside the measured size, so a surface of that size has it
proof fn theorem_in_box(cells: Seq<Cell>, ctx: &ViewContext, mw: int, wraps: bool, i: nat)
    requires mw >= 1, i < cells.len(),
    ensures pos_at(cells, ctx, mw, wraps, i) matches Some(p) ==>
        0 <= p.0 < run(cells, ctx, mw, wraps, cells.len()).h && 0 <= p.1 < run(cells, ctx, mw, wraps, cells.len()).w,
{
    lemma_run_ok(cells, ctx, mw, wraps, i);
    lemma_step(cells[i as int], ctx, mw, wraps, run(cells, ctx, mw, wraps, i));
    lemma_run_mono(cells, ctx, mw, wraps, i + 1, cells.len());
}

} // verus!

fn main() {}
