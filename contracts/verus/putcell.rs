//@ unit putcell
//@ props C09
//@ source src/render.rs
#![allow(unused_imports, dead_code, unused_variables, unused_mut)]
use vstd::prelude::*;

verus! {

global size_of usize == 8;

// shared ghost window model of surfaces (Position, Size, Shape, Win, rep, lemma_offset, frame): the text the unit `surface` proves
//@ include surface_model.inc

impl Shape {
    //@ fn impl Shape :: offset ret=r src=src/surface.rs
    //@+ requires spec_offset(*self, pos) <= usize::MAX,
    //@+ ensures r == spec_offset(*self, pos),
    //@proof start proof { assert(pos.row * self.row_stride >= 0 && pos.col * self.col_stride >= 0) by (nonlinear_arith); }
}

// Cell, CellKind, Cell::layout with its contract (the text the unit `celllayout` proves)
//@ include cell_model.inc

impl Cell {
    //@ fn impl Cell :: with_face ret=r vis=strip
    //@+ ensures r.kind == self.kind,

    //@ fn impl Cell :: overlay ret=r vis=strip
    //@+ ensures r.kind == other.kind, *final(self) == *final(r),   // (the face rule is the library's own and is left open)
}

// ---------------------------------------------------------------- the view the writer draws on
//@ item struct SurfaceMutView src=src/surface.rs

// the four surface operations put_cell uses, with the contracts the unit `surface` proves for the Surface / SurfaceMut
// default methods (the forwarding `impl Surface(Mut) for SurfaceMutView` itself is trusted there as well)
impl<'a, T> SurfaceMutView<'a, T> {
    pub closed spec fn g_shape(&self) -> Shape { self.shape }
    pub closed spec fn g_data(&self) -> Seq<T> { self.data@ }
    pub closed spec fn win(&self) -> Win { choose|w: Win| rep(self.shape, w, self.data@.len()) }
    pub closed spec fn wf(&self) -> bool { rep(self.shape, self.win(), self.data@.len()) }

    #[verifier::external_body]
    fn shape(&self) -> (r: Shape) ensures r == self.g_shape() { unimplemented!() }
    #[verifier::external_body]
    fn size(&self) -> (r: Size) ensures r.height == self.g_shape().height, r.width == self.g_shape().width { unimplemented!() }
    #[verifier::external_body]
    fn data_mut(&mut self) -> (r: &mut [T])
        ensures r@ == old(self).g_data(), final(self).g_data() == final(r)@, final(self).g_shape() == old(self).g_shape(),
    { unimplemented!() }
    #[verifier::external_body]
    fn get_mut(&mut self, pos: Position) -> (r: Option<&mut T>)
        requires old(self).wf(),
        ensures
            final(self).g_shape() == old(self).g_shape(),
            !in_win(old(self).win(), pos) ==> r is None && final(self).g_data() == old(self).g_data(),
            in_win(old(self).win(), pos) ==> (r matches Some(p) && *p == old(self).g_data()[spec_offset(old(self).g_shape(), pos)]
                && final(self).g_data() == old(self).g_data().update(spec_offset(old(self).g_shape(), pos), *final(p))),
    { unimplemented!() }
}

// the streaming UTF-8 decoder held by the writer, with the contracts the unit `utf8stream` proves (same text, re-proved here)
//@ include utf8_model.inc

//@ item struct TerminalWriter
//@subst N5 crate path of the decoder type shortened /crate::decoder::Utf8Decoder/Utf8Decoder/

#[verifier::external_body]
fn min_usize(a: usize, b: usize) -> (r: usize) ensures r == (if a <= b { a } else { b }) { std::cmp::min(a, b) }

proof fn lemma_mul_bound(a: int, b: int)
    requires 0 <= a < 0x100_0001, 0 <= b < 0x1_0000_0000,
    ensures 0 <= a * b < 0x100_0001 * 0x1_0000_0000,
{
    assert(0 <= a * b < 0x100_0001 * 0x1_0000_0000) by (nonlinear_arith) requires 0 <= a < 0x100_0001, 0 <= b < 0x1_0000_0000;
}

spec fn only_at(before: Seq<Cell>, after: Seq<Cell>, k: int) -> bool {
    before.len() == after.len() && 0 <= k < before.len() && forall|j: int| 0 <= j < before.len() && j != k ==> after[j] == before[j]
}
spec fn kinds_kept(before: Seq<Cell>, after: Seq<Cell>) -> bool {
    before.len() == after.len() && forall|k: int| 0 <= k < before.len() ==> (#[trigger] after[k]).kind == before[k].kind
}

impl<'a> TerminalWriter<'a> {
    pub closed spec fn inv(&self) -> bool {
        &&& self.surf.wf()
        &&& self.cursor.col <= self.surf.g_shape().width && self.size.width <= self.surf.g_shape().width
    }
    // screen-sized numbers: no usize overflow in cursor / offset arithmetic
    pub closed spec fn screen_sized(&self) -> bool {
        let sh = self.surf.g_shape();
        &&& self.cursor.row < 0x100_0000 && self.size.height < 0x100_0000 && sh.width < 0x100_0000 && sh.height < 0x100_0000
        &&& sh.start < 0x1_0000_0000 && sh.row_stride < 0x1_0000_0000 && sh.col_stride < 0x1_0000_0000
    }

    //@ fn impl<'a> TerminalWriter<'a> :: set_cursor ret=r vis=strip
    //@+ requires old(self).inv(),
    //@+ ensures
    //@+     // the only other way to move the cursor keeps the writer invariant: the position is clamped into the surface
    //@+     r.inv(), *final(self) == *final(r),
    //@+     r.cursor.col == (if pos.col <= old(self).surf.g_shape().width { pos.col } else { old(self).surf.g_shape().width }),
    //@+     r.cursor.row == (if pos.row <= old(self).surf.g_shape().height { pos.row } else { old(self).surf.g_shape().height }),
    //@+     r.surf == old(self).surf, r.size == old(self).size,
    //@subst N12 std::cmp::min routed through min_usize /\bmin\(pos\.col, self\.size\(\)\.width\)/min_usize(pos.col, self.size().width)/
    //@subst N12 std::cmp::min routed through min_usize /\bmin\(pos\.row, self\.size\(\)\.height\)/min_usize(pos.row, self.size().height)/

    //@ fn impl<'a> TerminalWriter<'a> :: size ret=r vis=strip
    //@+ ensures r.height == self.surf.g_shape().height, r.width == self.surf.g_shape().width,

    // N16: the glyph-fallback prelude `glyph.fallback_str().chars().all(|c| self.put_cell(..))` (recursion through a closure
    // over a str iterator) is routed to this unreachable stub: the contract below covers every call that does NOT take the
    // fallback path (terminal with glyph support, or a cell that is not a glyph)
    #[verifier::external_body]
    fn put_glyph_fallback(&mut self, cell: &Cell) -> (r: bool)
        requires false,
    { unimplemented!() }

    //@ fn impl CellWrite for TerminalWriter<'_> :: put_cell ret=r
    //@+ requires
    //@+     old(self).inv(), old(self).screen_sized(),
    //@+     old(self).ctx.spec_has_glyphs() || !(cell.kind is Glyph),
    //@+     cell.spec_size(&old(self).ctx).height < 0x100_0000, cell.spec_size(&old(self).ctx).width < 0x100_0000,
    //@+ ensures
    //@+     final(self).inv(),
    //@+     final(self).surf.g_shape() == old(self).surf.g_shape(), final(self).surf.win() == old(self).surf.win(),
    //@+     // nothing outside the window of the surface the writer was given changes
    //@+     frame(old(self).surf.g_shape(), old(self).surf.win(), old(self).surf.g_data(), final(self).surf.g_data()),
    //@+     // a cell that has a position: written there if the window has that position (only that cell changes), and
    //@+     // `false` ("out of space") is reported exactly when the window lacks it
    //@+     cell.place(&old(self).ctx, old(self).surf.g_shape().width, old(self).wraps, old(self).cursor) matches Some(p) ==> r == in_win(old(self).surf.win(), p),
    //@+     // (which face the written cell gets is the library's own styling rule and is left open)
    //@+     cell.place(&old(self).ctx, old(self).surf.g_shape().width, old(self).wraps, old(self).cursor) matches Some(p) ==> (in_win(old(self).surf.win(), p) ==>
    //@+         only_at(old(self).surf.g_data(), final(self).surf.g_data(), spec_offset(old(self).surf.g_shape(), p))
    //@+         && final(self).surf.g_data()[spec_offset(old(self).surf.g_shape(), p)].kind == cell.kind),
    //@+     cell.place(&old(self).ctx, old(self).surf.g_shape().width, old(self).wraps, old(self).cursor) matches Some(p) ==> (!in_win(old(self).surf.win(), p) ==>
    //@+         final(self).surf.g_data() == old(self).surf.g_data()),
    //@+     // a cell without a position never fails; it may restyle skipped cells but never changes any content
    //@+     cell.place(&old(self).ctx, old(self).surf.g_shape().width, old(self).wraps, old(self).cursor) is None ==> r,
    //@+     cell.place(&old(self).ctx, old(self).surf.g_shape().width, old(self).wraps, old(self).cursor) is None ==> kinds_kept(old(self).surf.g_data(), final(self).surf.g_data()),
    //@+     // "out of space" is permanent: a put fails only once the cursor has left the window downwards (or the window has no
    //@+     // columns), the cursor never moves back up, and from such a state no put changes any cell - which is why the
    //@+     // io::Write adapters may drop the rest of a buffer after a failed put without making the cells depend on the split
    //@+     !r ==> final(self).cursor.row >= old(self).surf.g_shape().height || old(self).surf.g_shape().width == 0,
    //@+     final(self).cursor.row >= old(self).cursor.row, final(self).cursor.row <= old(self).cursor.row + 1,
    //@+     final(self).size.height <= imax(old(self).size.height as int, final(self).cursor.row + cell.spec_size(&old(self).ctx).height),
    //@+     final(self).decoder == old(self).decoder, final(self).face == old(self).face, final(self).wraps == old(self).wraps, final(self).ctx == old(self).ctx,
    //@+     old(self).cursor.row >= old(self).surf.g_shape().height || old(self).surf.g_shape().width == 0 ==> final(self).surf.g_data() == old(self).surf.g_data(),
    //@proof start let ghost win = old(self).surf.win(); let ghost d0 = old(self).surf.g_data(); let ghost sh0 = old(self).surf.g_shape();
    //@proof before:/let\sstart\s=\sshape\.offset/ proof { lemma_mul_bound(cursor_start.row as int, shape.row_stride as int); lemma_mul_bound(cursor_start.col as int, shape.col_stride as int); lemma_mul_bound(self.cursor.row as int, shape.row_stride as int); lemma_mul_bound(self.cursor.col as int, shape.col_stride as int); }
    //@proof before:/if\slet\sSome\(cell_ref\)/ proof { if in_win(win, pos) { lemma_offset(sh0, win, d0.len(), pos); } }
    //@loop 1 invariant shape == sh0, rep(shape, win, data@.len()), data@.len() == d0.len(), frame(shape, win, d0, data@), kinds_kept(d0, data@), (cursor_start.row >= shape.height || shape.width == 0) ==> data@ == d0,
    //@loop 2 invariant shape == sh0, cursor_start.row <= row < shape.height, (cursor_start.row >= shape.height || shape.width == 0) ==> data@ == d0, rep(shape, win, data@.len()), data@.len() == d0.len(), frame(shape, win, d0, data@), kinds_kept(d0, data@),
    //@proof loop2.start proof { let p = Position { row, col }; lemma_offset(shape, win, data@.len(), p); assert(is_win_offset(shape, win, spec_offset(shape, p))); }
    //@subst N16 glyph fallback (closure recursion over chars()) routed to the unreachable stub /return glyph\s*\.fallback_str\(\)\s*\.chars\(\)\s*\.all\(\|c\| self\.put_cell\(Cell::new_char\(cell\.face, c\)\)\);/return self.put_glyph_fallback(&cell);/
    //@subst? N12 std::cmp::min routed through min_usize /\bmin\(self\.cursor\.row \+ 1, shape\.height\)/min_usize(self.cursor.row + 1, shape.height)/
    //@subst N8 `(start..end).contains(&offset)` spelled as the two comparisons /\(start\.\.end\)\.contains\(&offset\)/(start <= offset && offset < end)/
}

impl Cell {
    //@ fn impl Cell :: new_char ret=r vis=strip
    //@+ ensures r == char_cell(face, character),
}

impl<'a> TerminalWriter<'a> {
    // N5: CellWrite::face / CellWrite::put_char (trait methods; bodies verbatim) re-homed as inherent methods
    //@ fn impl CellWrite for TerminalWriter<'_> :: face ret=r
    //@+ ensures r == self.face,

    //@ fn pub trait CellWrite :: put_char ret=r
    //@+ requires
    //@+     old(self).inv(), old(self).screen_sized(),
    //@+     forall|f: Face| char_cell_small(#[trigger] char_cell(f, character), &old(self).ctx),
    //@+ ensures
    //@+     final(self).inv(), final(self).surf.g_shape() == old(self).surf.g_shape(), final(self).surf.win() == old(self).surf.win(),
    //@+     frame(old(self).surf.g_shape(), old(self).surf.win(), old(self).surf.g_data(), final(self).surf.g_data()),
    //@+     final(self).cursor.row >= old(self).cursor.row, final(self).cursor.row <= old(self).cursor.row + 1,
    //@+     final(self).size.height <= imax(old(self).size.height as int, final(self).cursor.row + 1),
    //@+     final(self).decoder == old(self).decoder, final(self).ctx == old(self).ctx,
    //@+     !r ==> final(self).cursor.row >= old(self).surf.g_shape().height || old(self).surf.g_shape().width == 0,
    //@+     old(self).cursor.row >= old(self).surf.g_shape().height || old(self).surf.g_shape().width == 0 ==> final(self).surf.g_data() == old(self).surf.g_data(),

    //@ fn impl std::io::Write for TerminalWriter<'_> :: write ret=r
    //@+ requires
    //@+     old(self).inv(), old(self).screen_sized(), old(self).decoder.wf(),
    //@+     old(self).cursor.row + buf@.len() + 1 < 0x100_0000, old(self).size.height + buf@.len() < 0x100_0000,
    //@+     forall|f: Face, c: char| char_cell_small(#[trigger] char_cell(f, c), &old(self).ctx),
    //@+ ensures
    //@+     // whatever bytes are written - complete characters, partial ones, invalid ones - only cells of the window of the
    //@+     // surface the writer was created on can change, and the writer stays well-formed for the next write
    //@+     final(self).inv(), final(self).decoder.wf(),
    //@+     final(self).surf.g_shape() == old(self).surf.g_shape(), final(self).surf.win() == old(self).surf.win(),
    //@+     frame(old(self).surf.g_shape(), old(self).surf.win(), old(self).surf.g_data(), final(self).surf.g_data()),
    //@+     r matches Ok(n) ==> n <= buf@.len(),
    //@proof start let ghost win = old(self).surf.win(); let ghost d0 = old(self).surf.g_data(); let ghost sh0 = old(self).surf.g_shape(); let ghost ctx0 = old(self).ctx;
    //@loop 1 invariant
    //@loop 1     win == old(self).surf.win(), d0 == old(self).surf.g_data(), sh0 == old(self).surf.g_shape(), ctx0 == old(self).ctx,
    //@loop 1     self.inv(), self.screen_sized(), self.decoder.wf(), self.ctx == ctx0,
    //@loop 1     self.surf.g_shape() == sh0, self.surf.win() == win, frame(sh0, win, d0, self.surf.g_data()),
    //@loop 1     cur.pos() + cur.rest().len() == buf@.len(),
    //@loop 1     self.cursor.row + cur.rest().len() + 1 < 0x100_0000, self.size.height + cur.rest().len() < 0x100_0000,
    //@loop 1     forall|f: Face, c: char| char_cell_small(#[trigger] char_cell(f, c), &ctx0),
    //@loop 1 decreases cur.rest().len(),
    //@subst N6 io::Cursor over the byte slice instantiated with the cursor stand-in /std::io::Cursor::new\(buf\)/ByteCursor::new(buf)/
}

// characters are one row high and at most two columns wide (unicode-width); stated here as "small"
spec fn char_cell(f: Face, c: char) -> Cell { Cell { face: f, kind: CellKind::Char(c) } }
spec fn char_cell_small(c: Cell, ctx: &ViewContext) -> bool {
    c.spec_size(ctx).height <= 1 && c.spec_size(ctx).width < 0x100_0000
}

} // verus!

fn main() {}
