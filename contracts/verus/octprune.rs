//@ unit octprune
//@ props C13
//@ source src/image.rs
#![allow(unused_imports, dead_code, unused_variables, unused_mut)]
use vstd::prelude::*;

verus! {

//@ include std_specs.inc

global size_of usize == 8;

//@ item struct OcTreeLeaf
//@ item struct OcTreeInfo
//@ item enum OcTreeNode
//@subst N1 derive(Clone) on the recursive tree types dropped (Verus reports a trait cycle) /#\[derive\(Clone\)\]\s*//
//@ item struct OcTree
//@subst N1 derive(Clone) on the recursive tree types dropped (Verus reports a trait cycle) /#\[derive\(Clone\)\]\s*//

// N12: `usize::max` (Ord::max) routed through a specified wrapper
#[verifier::external_body]
fn max_usize(a: usize, b: usize) -> (r: usize)
    ensures r == (if a >= b { a } else { b }),
{ a.max(b) }

impl OcTree {
    // OcTree::prune (recursive, closure-based) is outside the dialect; prune_until's contract below does not depend on
    // what prune does, only on the loop guard: NO contract is assumed for it.
    #[verifier::external_body]
    fn prune(&mut self) { unimplemented!() }

    //@ fn impl OcTree :: prune_until vis=strip
    //@+ ensures
    //@+     // the palette bound: pruning stops only when the leaf summary fits max(requested, 8)
    //@+     final(self).info.leaf_count <= (if color_count >= 8 { color_count } else { 8 }),
    //@+     // losslessness precondition: a tree that already fits is not touched at all
    //@+     old(self).info.leaf_count <= (if color_count >= 8 { color_count } else { 8 }) ==> *final(self) == *old(self),
    //@subst N12 usize::max routed through max_usize /color_count\.max\(8\)/max_usize(color_count, 8)/
    //@attr #[verifier::exec_allows_no_decreases_clause]
    //@loop 1 invariant old(self).info.leaf_count <= prune_count ==> *self == *old(self),
}

} // verus!

fn main() {}
