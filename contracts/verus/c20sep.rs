//@ unit c20sep
//@ props C20
#![allow(unused_imports, dead_code, unused_variables)]
use vstd::prelude::*;

verus! {

// Separability argument behind color_sgr_encode's EightBit branch, over mathematical integers (any common
// scaling of the linear-light values; the f32 rounding of the real code is NOT modelled here - near-ties within
// an ulp are not decided). The executable selection primitive `nearest` is proved bit-precisely by Kani (c20_*).
pub open spec fn sq(x: int) -> int { x * x }
pub open spec fn abs(x: int) -> int { if x < 0 { -x } else { x } }
pub open spec fn d2(r: int, g: int, b: int, x: int, y: int, z: int) -> int { sq(r - x) + sq(g - y) + sq(b - z) }

proof fn lemma_sq_mono(a: int, b: int)
    requires abs(a) <= abs(b),
    ensures sq(a) <= sq(b),
{
    assert(sq(a) <= sq(b)) by (nonlinear_arith) requires abs(a) <= abs(b), abs(a) == (if a < 0 { -a } else { a }), abs(b) == (if b < 0 { -b } else { b });
}

// per-channel nearest cube levels give the nearest cube point among all 6^3
proof fn lemma_cube_separable(r: int, g: int, b: int, cr: int, cg: int, cb: int, xr: int, xg: int, xb: int)
    requires abs(r - cr) <= abs(r - xr), abs(g - cg) <= abs(g - xg), abs(b - cb) <= abs(b - xb),
    ensures d2(r, g, b, cr, cg, cb) <= d2(r, g, b, xr, xg, xb),
{
    lemma_sq_mono(r - cr, r - xr);
    lemma_sq_mono(g - cg, g - xg);
    lemma_sq_mono(b - cb, b - xb);
}

// the grey level nearest to the channel mean is the nearest grey point (y,y,y): d2 = 3(y - m)^2 + const
proof fn lemma_grey_nearest_mean(r: int, g: int, b: int, y1: int, y2: int)
    requires abs(3 * y1 - (r + g + b)) <= abs(3 * y2 - (r + g + b)),
    ensures d2(r, g, b, y1, y1, y1) <= d2(r, g, b, y2, y2, y2),
{
    let s = r + g + b;
    lemma_sq_mono(3 * y1 - s, 3 * y2 - s);
    lemma_grey_expand(r, g, b, y1);
    lemma_grey_expand(r, g, b, y2);
}

proof fn lemma_grey_expand(r: int, g: int, b: int, y: int)
    ensures 3 * d2(r, g, b, y, y, y) == sq(3 * y - (r + g + b)) + 3 * (sq(r) + sq(g) + sq(b)) - sq(r + g + b),
{
    assert(sq(r - y) == sq(r) - 2 * (r * y) + sq(y)) by (nonlinear_arith);
    assert(sq(g - y) == sq(g) - 2 * (g * y) + sq(y)) by (nonlinear_arith);
    assert(sq(b - y) == sq(b) - 2 * (b * y) + sq(y)) by (nonlinear_arith);
    let s = r + g + b;
    assert(sq(3 * y - s) == 9 * sq(y) - 6 * (y * s) + sq(s)) by (nonlinear_arith);
    assert(y * s == r * y + g * y + b * y) by (nonlinear_arith) requires s == r + g + b;
}

// taking the closer of (best cube point, best grey point) is a global minimum over cube points and grey points
proof fn lemma_choice(dc: int, dg: int, dx: int)
    requires dc <= dx || dg <= dx,
    ensures (if dg < dc { dg } else { dc }) <= dx,
{
}

} // verus!

fn main() {}
