#!/bin/bash
# run every claimed check (tier from $1, default quick) sequentially on the current /repo tree; summary at the end
cd "$(dirname "$0")/.."
tier=${1:-quick}
mkdir -p .cache/logs
: > .cache/logs/run_all_$tier.txt
for p in $(python3 -c "import sys; sys.path.insert(0,'lib'); import props; print(' '.join(sorted(props.PROPS)))"); do
  t0=$(date +%s)
  ./check $p --tier $tier > .cache/logs/run_all_${tier}_$p.log 2>&1
  rc=$?
  t1=$(date +%s)
  echo "$p rc=$rc $((t1-t0))s $(grep -E '^(OK|VIOLATION)' .cache/logs/run_all_${tier}_$p.log | head -2 | tr '\n' ' ')" | tee -a .cache/logs/run_all_$tier.txt
done
echo ALLDONE >> .cache/logs/run_all_$tier.txt
