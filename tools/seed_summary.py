#!/usr/bin/env python3
"""Regenerate seeded/SUMMARY.md from seeded/*/meta.json."""
import glob, json, os
V = os.path.dirname(os.path.dirname(os.path.abspath(__file__)))
rows = []
for m in sorted(glob.glob(os.path.join(V, "seeded", "*", "meta.json"))):
    d = json.load(open(m))
    name = os.path.basename(os.path.dirname(m))
    what = (d.get("summary") or d.get("needs_to_manifest", "").strip().split("\n")[0])[:160].replace("|", "/")
    verdict = {1: "VIOLATION (detected)", 0: "not detected (exit 0)", 2: "undecided (exit 2)"}.get(d.get("check_rc"), str(d.get("check_rc")))
    ob = ""
    for l in d.get("check_output", []):
        if "failed obligation" in l:
            ob = l.split("failed obligation:")[1].strip()[:110]
            break
    rows.append("| %s | %s | %s | %s | %s | %s |" % (name, d["property"], "yes" if d.get("confirmed") else "NO", verdict, ob, what))
out = ["# Seeded property-breaking changes (written by independent sub-agents) and what the checks say", "",
       "Confirmed = demo fails with the patch, passes without it, and the 62 baseline tests pass with the patch (tools/seed_eval.py).", "",
       "| seed | property | confirmed | check result | first failed obligation | change |", "|---|---|---|---|---|---|"] + rows
open(os.path.join(V, "seeded", "SUMMARY.md"), "w").write("\n".join(out) + "\n")
print("\n".join(out))
