#!/usr/bin/env python3
"""Evaluate one seeded change produced by a sub-agent.

  tools/seed_eval.py <seed_dir> <property> <name>

 1. in a scratch worktree of /repo HEAD: demo passes without the patch, fails with it;
    the 62 baseline tests pass with the patch
 2. apply the patch to /repo, run ./check <property> (quick), revert
 3. store patch/demo/meta under /verif/seeded/<property>-<name>/
"""
import json, os, shutil, subprocess, sys, time, re

seed, prop, name = sys.argv[1], sys.argv[2], sys.argv[3]
tier = sys.argv[4] if len(sys.argv) > 4 else "quick"
VERIF = os.path.dirname(os.path.dirname(os.path.abspath(__file__)))
wt = "/tmp/seedeval-%s-%s" % (prop, name)
env = dict(os.environ, CARGO_NET_OFFLINE="true", CARGO_TARGET_DIR="/tmp/seedeval-target")

def sh(cmd, cwd=None, check=False):
    p = subprocess.run(cmd, shell=True, cwd=cwd, env=env, capture_output=True, text=True)
    if check and p.returncode != 0:
        print(p.stdout[-2000:], p.stderr[-2000:]); sys.exit("failed: " + cmd)
    return p.returncode, p.stdout + p.stderr

sh("git -C /repo worktree remove --force %s" % wt)
sh("git -C /repo worktree add --detach %s HEAD" % wt, check=True)
meta = {"property": prop, "name": name, "repo_head": sh("git -C /repo rev-parse --short HEAD")[1].strip()}
try:
    patch = os.path.join(seed, "patch.diff"); demo = os.path.join(seed, "demo.diff")
    def tests(filt=""):
        rc, out = sh("cargo test --offline --lib %s 2>&1 | grep -E 'test result|FAILED|failed|error' | head -20" % filt, cwd=wt)
        m = re.search(r"test result: (\w+)\. (\d+) passed; (\d+) failed", out)
        return (m.group(1), int(m.group(2)), int(m.group(3))) if m else ("builderror", 0, 0), out
    sh("git apply %s" % demo, cwd=wt, check=True)
    r0, o0 = tests()
    sh("git apply %s" % patch, cwd=wt, check=True)
    r1, o1 = tests()
    sh("git apply -R %s" % demo, cwd=wt, check=True)
    r2, o2 = tests()
    meta["demo_without_patch"] = r0; meta["demo_with_patch"] = r1; meta["baseline_with_patch"] = r2
    ok = r0[0] == "ok" and r1[2] >= 1 and r2 == ("ok", 62, 0)
    meta["confirmed"] = ok
    print("demo w/o patch:", r0, " demo with patch:", r1, " baseline with patch:", r2, " confirmed:", ok)
finally:
    sh("git -C /repo worktree remove --force %s" % wt)
# run the check against /repo with the patch applied
rc, st = sh("git -C /repo status --porcelain --untracked-files=no")
if st.strip():
    sys.exit("/repo not clean")
ev = os.path.join(VERIF, "evidence", prop + ".json")
ev_bak = open(ev).read() if os.path.exists(ev) else None   # evidence of a mutated tree must not replace the clean one
sh("git -C /repo apply %s" % patch, check=True)
try:
    t0 = time.time()
    p = subprocess.run(["./check", prop, "--tier", tier], cwd=VERIF, capture_output=True, text=True)
    meta["check_rc"] = p.returncode
    meta["check_wall_s"] = round(time.time() - t0, 1)
    lines = [l for l in (p.stdout + p.stderr).splitlines() if re.search(r"VIOLATION|KNOWN|OK property|UNDECIDED|failed obligation", l)]
    meta["check_output"] = lines[:20]
    print("check rc=%d" % p.returncode); print("\n".join(lines[:12]))
finally:
    sh("git -C /repo checkout -- .", check=True)
    if ev_bak is not None:
        open(ev, "w").write(ev_bak)
meta["detected"] = meta["check_rc"] == 1
d = os.path.join(VERIF, "seeded", "%s-%s" % (prop, name))
os.makedirs(d, exist_ok=True)
for src, name_ in ((patch, "patch.diff"), (demo, "demo.diff")):
    if os.path.abspath(src) != os.path.abspath(os.path.join(d, name_)):
        shutil.copy(src, os.path.join(d, name_))
if os.path.exists(os.path.join(seed, "notes.txt")):
    meta["needs_to_manifest"] = open(os.path.join(seed, "notes.txt")).read()[:3000]
    if os.path.abspath(seed) != os.path.abspath(d):
        shutil.copy(os.path.join(seed, "notes.txt"), os.path.join(d, "notes.txt"))
elif os.path.exists(os.path.join(d, "meta.json")):
    try:
        meta["needs_to_manifest"] = json.load(open(os.path.join(d, "meta.json"))).get("needs_to_manifest", "")
    except Exception:
        pass
meta["ran"] = ["git apply demo.diff; cargo test --lib (pass)", "git apply patch.diff; cargo test --lib (demo fails)",
               "git apply -R demo.diff; cargo test --lib (62 pass)", "git -C /repo apply patch.diff; ./check %s --tier %s; git -C /repo checkout -- ." % (prop, tier)]
json.dump(meta, open(os.path.join(d, "meta.json"), "w"), indent=1)
