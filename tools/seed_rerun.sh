#!/bin/bash
# re-evaluate every stored seeded change against the current checks (modifies /repo temporarily; run nothing else meanwhile)
cd "$(dirname "$0")/.."
for d in seeded/*/; do
  n=$(basename $d); prop=${n%%-*}; name=${n#*-}
  python3 tools/seed_eval.py $d $prop $name 2>&1 | tail -n 3
done
python3 tools/seed_summary.py > /dev/null
