"""Engine K: Kani on a scratch copy of the real crate.

The scratch copy is /repo's current working tree; the splicer only *appends*
harness modules (`#[cfg(kani)] mod verif_kani_<group> { use super::*; .. }`)
and *inserts* `#[cfg_attr(kani, kani::requires/ensures(..))]` attribute lines
above named functions. No existing line is edited or removed.
"""
import importlib.util
import os
import re
import shlex

from common import (CACHE, VERIF, Undecided, copy_repo, log, read, run, scratch_dir, write)

KANI_DIR = os.path.join(VERIF, "contracts", "kani")
KANI_TARGET = os.path.join(CACHE, "kani-target")

LINTS = """
[lints.rust]
unexpected_cfgs = { level = "allow", check-cfg = ['cfg(kani)'] }
"""


class Harness:
    def __init__(self, group, name, meta, desc):
        self.group = group
        self.name = name
        self.kind = meta.get("kind", "complete")  # complete | bounded | contract
        self.tier = meta.get("tier", "quick")
        self.props = meta.get("props", "").split(",")
        self.fns = [f for f in meta.get("fns", "").split(",") if f]
        self.bound = meta.get("bound", "")
        self.expect = meta.get("expect", "pass")
        self.desc = desc
        self.full = None  # fully qualified harness path


class Group:
    def __init__(self, name):
        self.name = name
        path_rs = os.path.join(KANI_DIR, name + ".rs")
        path_py = os.path.join(KANI_DIR, name + ".py")
        if os.path.exists(path_py):
            spec = importlib.util.spec_from_file_location("kani_group_" + name, path_py)
            mod = importlib.util.module_from_spec(spec)
            spec.loader.exec_module(mod)
            self.text = mod.TEXT
        else:
            self.text = read(path_rs)
        self.target = None
        self.module = "verif_kani_" + name
        self.attrs = []  # (file, fn_regex_name, [attr lines])
        self.extra_items = []  # (file, text) appended at top level of file
        self.kani_norm = {}
        self.separate = False
        self.helper = False
        self.record_fmt = []     # files in which write!(dst, "lit", args..) also records the literal and its integer arguments (K2)
        self.strip_tracing = []  # files in which tracing attributes / macro statements are removed (K1)
        self.harnesses = []
        self._parse()

    def _parse(self):
        lines = self.text.splitlines()
        body = []
        i = 0
        cur_attr = None
        while i < len(lines):
            ln = lines[i]
            s = ln.strip()
            if s.startswith("//@ target:"):
                self.target = s.split(":", 1)[1].strip()
            elif s.startswith("//@ helper"):
                self.helper = True     # no harnesses of its own: code other groups of the same property use; always spliced
            elif s.startswith("//@ separate"):
                self.separate = True   # spliced and run in its own scratch copy (its stubs / contracts would clash with another group's)
            elif s.startswith("//@ record-fmt "):
                self.record_fmt.append(s.split(None, 2)[2].strip())
            elif s.startswith("//@ strip-tracing "):
                self.strip_tracing.append(s.split(None, 2)[2].strip())
            elif s.startswith("//@ attrs "):
                _, _, f, fn = s.split(None, 3)
                cur_attr = (f, fn.strip(), [])
                self.attrs.append(cur_attr)
            elif s.startswith("//@|"):
                if cur_attr is None:
                    raise Undecided("%s: //@| without //@ attrs" % self.name)
                cur_attr[2].append(s[4:].strip())
            elif s.startswith("//# "):
                meta_s, _, desc = s[4:].partition("|")
                meta = dict(kv.split("=", 1) for kv in shlex.split(meta_s))
                # find harness fn name below
                j = i + 1
                name = meta.get("name")
                while name is None and j < len(lines):
                    m = re.match(r"\s*(?:pub\s+)?fn\s+(\w+)\s*\(", lines[j])
                    if m:
                        name = m.group(1)
                    j += 1
                self.harnesses.append(Harness(self, name, meta, desc.strip()))
                body.append(ln)
            else:
                body.append(ln)
            i += 1
        if not self.target:
            raise Undecided("%s: no //@ target:" % self.name)
        self.body = "\n".join(body)
        modpath = self.target
        assert modpath.startswith("src/") and modpath.endswith(".rs")
        modpath = modpath[4:-3]
        if modpath.endswith("/mod"):
            modpath = modpath[:-4]
        modpath = modpath.replace("/", "::")
        for h in self.harnesses:
            h.full = "%s::%s::%s" % (modpath, self.module, h.name)


def insert_attrs(src_text, fn_name, attr_lines, fname):
    """Insert attribute lines immediately above `fn <fn_name>` (first match at
    item level, optionally qualified as `Type::fn`). Additive only."""
    impl_of = None
    if "::" in fn_name:
        impl_of, fn_name = fn_name.rsplit("::", 1)
    lines = src_text.split("\n")
    start = 0
    if impl_of:
        pat = re.compile(r"^\s*impl(<[^>]*>)?\s+(.*\s+for\s+)?%s\b" % re.escape(impl_of))
        for k, ln in enumerate(lines):
            if pat.match(ln):
                start = k
                break
        else:
            raise Undecided("lost anchor: impl %s in %s" % (impl_of, fname))
    pat = re.compile(r"^(\s*)(pub(\([a-z]+\))?\s+)?(const\s+)?(unsafe\s+)?fn\s+%s\s*[<(]" % re.escape(fn_name))
    for k in range(start, len(lines)):
        m = pat.match(lines[k])
        if m:
            # step above existing attributes / doc comments
            j = k
            while j > 0 and re.match(r"^\s*(#\[|///)", lines[j - 1]):
                j -= 1
            indent = m.group(1)
            lines[k:k] = [indent + a for a in attr_lines]
            return "\n".join(lines)
    raise Undecided("lost anchor: fn %s in %s" % (fn_name, fname))


def strip_tracing(text):
    """K1: remove `#[tracing::instrument(..)]` attributes and `tracing::<level>!(..);` / `let _ = tracing::..span!(..).enter();`
    statements (logging only; kani-compiler 0.68 crashes - intrinsics.rs:243 - on code reached from tracing's callsite
    registration). Returns (text, count)."""
    import rustscan as RS
    n = 0
    while True:
        m = RS.mask(text)
        mm = re.search(r"#\[tracing::instrument", m)
        if mm:
            ob = m.index("[", mm.start())
            cb = RS.match_brace(m, ob)
            text = text[:mm.start()] + text[cb + 1:]
            n += 1
            continue
        mm = re.search(r"(?m)^[ \t]*(let\s+_\w*\s*=\s*)?tracing::\w+!\s*\(", m)
        if mm:
            ob = m.index("(", mm.end() - 1)
            cb = RS.match_brace(m, ob)
            semi = m.index(";", cb)
            text = text[:mm.start()] + text[semi + 1:]
            n += 1
            continue
        break
    return text, n


KFMT = r"""
// ---- K2 (verification scratch copy only): write!(dst, "literal", args..) is routed through kwrite!, which records the format
// literal and every integer / char argument and then performs the real write! - unless a harness switched the real write off,
// in which case the record stands for the formatted bytes (core::fmt is outside CBMC's reach)
#[allow(unused_macros)]
macro_rules! kwrite {
    ($dst:expr, $fmt:literal $(, $arg:expr)* $(,)?) => {{
        #[cfg(kani)]
        {
            #[allow(unused_imports)]
            use $crate::MODPATH::kfmt_rec::{KInt as _, KOther as _};
            $crate::MODPATH::kfmt_rec::rec_fmt($fmt);
            $( (&$crate::MODPATH::kfmt_rec::W(&$arg)).krec(); )*
        }
        if $crate::MODPATH::kfmt_rec::real() { write!($dst, $fmt $(, $arg)*) } else { Ok(()) }
    }};
    ($($t:tt)*) => { write!($($t)*) };
}
#[allow(unused, static_mut_refs)]
pub(crate) mod kfmt_rec {
    pub static mut REAL: bool = true;
    pub static mut NF: usize = 0;
    pub static mut FMTS: [&'static str; 8] = [""; 8];
    pub static mut NA: usize = 0;
    pub static mut ARGS: [i128; 16] = [0; 16];
    pub static mut OTHERS: usize = 0;
    pub fn real() -> bool { unsafe { REAL } }
    pub fn rec_fmt(f: &'static str) { unsafe { if NF < 8 { FMTS[NF] = f; } NF += 1; } }
    pub fn rec_int(v: i128) { unsafe { if NA < 16 { ARGS[NA] = v; } NA += 1; } }
    pub struct W<'a, T>(pub &'a T);
    pub trait KInt { fn krec(&self); }
    pub trait KOther { fn krec(&self); }
    macro_rules! kint { ($($t:ty),*) => { $( impl KInt for W<'_, $t> { fn krec(&self) { rec_int(*self.0 as i128) } } impl KInt for W<'_, &$t> { fn krec(&self) { rec_int(**self.0 as i128) } } )* } }
    kint!(u8, u16, u32, u64, usize, i8, i16, i32, i64, isize);
    impl KInt for W<'_, char> { fn krec(&self) { rec_int(*self.0 as u32 as i128) } }
    // a string argument is recorded as its length and its first byte (enough for the one-letter flags the encoder passes)
    impl KInt for W<'_, &str> { fn krec(&self) { let b = self.0.as_bytes(); rec_int(((b.len() as i128) << 8) | (if b.len() > 0 { b[0] as i128 } else { 0 })) } }
    impl<T> KOther for &W<'_, T> { fn krec(&self) { unsafe { OTHERS += 1; } } }
}
"""


def record_fmt(text, rel):
    """K2: see KFMT. Returns (text, count)."""
    import rustscan as RS
    m = RS.mask(text)
    out, pos, n = [], 0, 0
    for mm in re.finditer(r"(?<![\w!])write!\s*\(", m):
        out.append(text[pos:mm.start()]); out.append("k"); pos = mm.start(); n += 1
    out.append(text[pos:])
    modpath = rel[len("src/"):-len(".rs")].replace("/", "::")
    if modpath.endswith("::mod"):
        modpath = modpath[:-5]
    body = "".join(out)
    # the recorder goes after the file's leading inner attributes / inner doc comments
    lines = body.split("\n")
    k = 0
    while k < len(lines) and (not lines[k].strip() or lines[k].lstrip().startswith(("//", "#!["))):
        k += 1
    return "\n".join(lines[:k]) + "\n" + KFMT.replace("MODPATH", modpath) + "\n".join(lines[k:]), n


def splice(scratch_repo, groups):
    by_file = {}
    for g in groups:
        by_file.setdefault(g.target, []).append(g)
    attr_files = {}
    for g in groups:
        for f, fn, attr_lines in g.attrs:
            attr_files.setdefault(f, []).append((fn, attr_lines))
    strip_files = [f for g in groups for f in g.strip_tracing] + [f for g in groups for f in g.record_fmt]
    for f in set(list(by_file) + list(attr_files) + strip_files):
        path = os.path.join(scratch_repo, f)
        if not os.path.exists(path):
            raise Undecided("lost anchor: file %s" % f)
        text = read(path)
        if any(f in g.strip_tracing for g in groups):
            text, n_tr = strip_tracing(text)
            text = "#![allow(unused)]\n" + text   # the crate denies warnings; a stripped log statement may leave a variable unused
            for g in groups:
                if f in g.strip_tracing:
                    g.kani_norm["K1 tracing attributes / log statements removed in the scratch copy (logging only; kani-compiler crashes on tracing's callsite code)"] = n_tr
        if any(f in g.record_fmt for g in groups):
            text, n_w = record_fmt(text, f)
            for g in groups:
                if f in g.record_fmt:
                    g.kani_norm["K2 write!(dst, literal, args..) routed through a recorder of the literal and its integer arguments (arguments evaluated twice; the real write! still runs unless the harness switches it off)"] = n_w
        for fn, attr_lines in attr_files.get(f, []):
            text = insert_attrs(text, fn, attr_lines, f)
        for g in by_file.get(f, []):
            text += "\n#[cfg(kani)]\n#[allow(warnings)]\npub(crate) mod %s {\n    use super::*;\n%s\n}\n" % (
                g.module, g.body)
        write(path, text)
    cargo = os.path.join(scratch_repo, "Cargo.toml")
    write(cargo, read(cargo) + LINTS)


class HarnessResult:
    def __init__(self, h):
        self.h = h
        self.status = None  # SUCCESSFUL | FAILED | None
        self.checks = 0
        self.failed_n = 0
        self.covers = (0, 0)
        self.failed = []  # (desc, file, line, fn)
        self.time = 0.0
        self.raw = ""

    @property
    def undecided_reasons(self):
        r = []
        for d, f, l, fn in self.failed:
            if "unwinding assertion" in d or "is not currently supported" in d or "unsupported" in d.lower():
                r.append(d)
        return r

    @property
    def real_failures(self):
        und = set(self.undecided_reasons)
        return [x for x in self.failed if x[0] not in und]


def parse_terse(out, harnesses):
    by_full = {h.full: HarnessResult(h) for h in harnesses}
    cur_by_thread = {}
    cur = None
    thread = None
    for ln in out.splitlines():
        m = re.match(r"^(?:Thread (\d+): )?Checking harness (\S+?)\.\.\.\s*$", ln)
        if m:
            t = m.group(1) or "0"
            hr = by_full.get(m.group(2))
            cur_by_thread[t] = hr
            continue
        m = re.match(r"^Thread (\d+):\s*$", ln)
        if m:
            thread = m.group(1)
            cur = cur_by_thread.get(thread)
            continue
        if ln.startswith("Manual Harness Summary") or ln.startswith("Complete - "):
            cur = None
            continue
        if cur is None:
            # single-thread output has no "Thread" separator
            if len(cur_by_thread) == 1 and "0" in cur_by_thread and thread is None:
                cur = cur_by_thread["0"]
            else:
                continue
        if cur is None:
            continue
        cur.raw += ln + "\n"
        m = re.match(r"^\s*\*\* (\d+) of (\d+) failed", ln)
        if m:
            cur.failed_n, cur.checks = int(m.group(1)), int(m.group(2))
        m = re.match(r"^\s*\*\* (\d+) of (\d+) cover properties satisfied", ln)
        if m:
            cur.covers = (int(m.group(1)), int(m.group(2)))
        m = re.match(r"^Failed Checks: (.*)$", ln)
        if m:
            cur.failed.append([m.group(1).strip(), "", 0, ""])
        m = re.match(r'^\s*File: "([^"]*)", line (\d+), in (.*)$', ln)
        if m and cur.failed and not cur.failed[-1][1]:
            cur.failed[-1][1:] = [m.group(1), int(m.group(2)), m.group(3).strip()]
        m = re.match(r"^VERIFICATION:- (\w+)", ln)
        if m:
            cur.status = m.group(1)
        m = re.match(r"^Verification Time: ([0-9.]+)s", ln)
        if m:
            cur.time = float(m.group(1))
    return list(by_full.values())


def load_groups(names):
    return [Group(n) for n in names]


def kani_cmd(harness_fulls, jobs=16, extra=(), harness_timeout=None):
    cmd = ["cargo", "kani", "-Z", "function-contracts", "-Z", "stubbing",
           "--target-dir", KANI_TARGET]
    if harness_timeout:
        cmd += ["-Z", "unstable-options", "--harness-timeout", "%ds" % harness_timeout]
    for h in harness_fulls:
        cmd += ["--harness", h]
    cmd += ["--exact", "-j", str(jobs), "--output-format", "terse"]
    cmd += list(extra)
    return cmd


def run_kani(prop, group_names, tier, timeout=1500, jobs=16, only=None, keep_scratch=False, harness_timeout=None):
    """Returns (results, info). Raises Undecided on infrastructure failure."""
    groups = load_groups(group_names)
    selected = []
    for g in groups:
        for h in g.harnesses:
            if prop not in h.props:
                continue
            if tier == "quick" and h.tier != "quick":
                continue
            if only and h.name not in only:
                continue
            selected.append(h)
    if not selected:
        return [], {"cmd": "", "wall": 0.0, "scratch": None}
    used_groups = [g for g in groups if g.helper or any(h.group is g for h in selected)]
    if harness_timeout is None:
        harness_timeout = int(os.environ.get("VERIF_HARNESS_TIMEOUT", "300" if tier == "quick" else "900"))
    # groups marked `//@ separate` get their own scratch copy and cargo-kani invocation
    batches = [[g for g in used_groups if not g.separate]] + [[g] for g in used_groups if g.separate]
    batches = [b for b in batches if b]
    all_results, info = [], {"cmd": "", "wall": 0.0, "scratch": None, "rc": 0, "normalisations": {}}
    for bi, batch in enumerate(batches):
        sel = [h for h in selected if h.group in batch]
        sd = scratch_dir("kani-%s-%d" % (prop, bi))
        repo = copy_repo(os.path.join(sd, "repo"))
        splice(repo, batch)
        cmd = kani_cmd([h.full for h in sel], jobs=jobs, harness_timeout=harness_timeout)
        log("[kani] %s: %d harnesses: %s" % (prop, len(sel), " ".join(h.name for h in sel)))
        rc, out, wall = run(cmd, cwd=repo, timeout=timeout, rss_gb=float(os.environ.get("VERIF_RSS_GB", "40")))
        write(os.path.join(CACHE, "logs", "kani-%s-%s%s.log" % (prop, tier, "" if bi == 0 else "-%d" % bi)), out)
        info["cmd"] = (info["cmd"] + " ; " if info["cmd"] else "") + " ".join(cmd)
        info["wall"] += wall
        info["scratch"] = info["scratch"] or repo
        for g in batch:
            for k, n in g.kani_norm.items():
                info["normalisations"][k] = n
        if rc is None:
            raise Undecided("kani run exceeded time/memory limit (%ds)" % timeout)
        if "error: could not compile" in out or re.search(r"^error(\[E\d+\])?:", out, re.M) and "VERIFICATION" not in out:
            errs = "\n".join(l for l in out.splitlines() if l.startswith("error"))[:2000]
            raise Undecided("kani build failed (extraction/splice no longer type-checks):\n" + errs)
        results = parse_terse(out, sel)
        missing = [r.h.name for r in results if r.status is None]
        if missing:
            raise Undecided("kani produced no verdict for: %s (see .cache/logs)" % ", ".join(missing))
        for r in results:
            r.scratch = repo
        all_results += results
    return all_results, info
