"""Counterexample extraction (Kani concrete playback) and native replay."""
import json
import os
import re

from common import (CACHE, REPLAY_DIR, Undecided, copy_repo, log, read, run, scratch_dir, write)
import kani_engine as K

PLAYBACK_TARGET = os.path.join(CACHE, "playback-target")


def _extract_test(before, after):
    """Return (test_name, test_text) of the unit test Kani inserted in place."""
    for m in re.finditer(r"#\[test\]\s*\n\s*fn (kani_concrete_playback_\w+)\s*\(\)\s*\{", after):
        if m.group(1) in before:
            continue
        i = after.index("{", m.end() - 1)
        depth = 0
        j = i
        while j < len(after):
            if after[j] == "{":
                depth += 1
            elif after[j] == "}":
                depth -= 1
                if depth == 0:
                    break
            j += 1
        return m.group(1), after[m.start():j + 1]
    return None, None


def native_playback(repo, test_name, timeout=600):
    cmd = ["cargo", "kani", "playback", "-Z", "concrete-playback", "-Z", "function-contracts",
           "-Z", "stubbing", "--", test_name, "--nocapture"]
    rc, out, wall = run(cmd, cwd=repo, timeout=timeout, env={"CARGO_TARGET_DIR": PLAYBACK_TARGET})
    m = re.search(r"test result: (\w+)\. (\d+) passed; (\d+) failed", out)
    if rc is None or not m:
        return None, out
    ran = int(m.group(2)) + int(m.group(3))
    if ran == 0:
        return None, out
    return int(m.group(3)) > 0, out


def counterexample(prop, result, scratch_repo, timeout=900):
    """Ask Kani for concrete values of the failing harness and replay them
    natively against the real crate. Returns dict for the replay file."""
    h = result.h
    src = os.path.join(scratch_repo, h.group.target)
    before = read(src)
    cmd = ["cargo", "kani", "-Z", "function-contracts", "-Z", "stubbing", "-Z", "concrete-playback",
           "--concrete-playback=inplace", "--harness", h.full, "--exact",
           "--target-dir", K.KANI_TARGET]
    rc, out, wall = run(cmd, cwd=scratch_repo, timeout=timeout, rss_gb=48)
    after = read(src)
    name, text = _extract_test(before, after)
    rec = {
        "property": prop,
        "engine": "kani",
        "group": h.group.name,
        "harness": h.name,
        "harness_full": h.full,
        "failed_checks": [{"description": d, "file": f, "line": l, "function": fn} for d, f, l, fn in result.failed],
        "verifier_output": result.raw[-4000:],
        "playback_test_name": name,
        "playback_test": text,
        "native_failed": None,
        "native_output": "",
    }
    if name:
        vals = re.findall(r"^\s*//\s*(.*)$", text, re.M)
        rec["concrete_values"] = vals
        failed, nout = native_playback(scratch_repo, name)
        rec["native_failed"] = failed
        keep = [l for l in nout.splitlines() if re.search(r"panicked|assert|overflow|left:|right:|test result|FAILED|index out|unwrap", l)]
        rec["native_output"] = "\n".join(keep[:40])
    return rec


def write_replay(prop, tag, rec):
    path = os.path.join(REPLAY_DIR, "%s-%s.json" % (prop, re.sub(r"[^A-Za-z0-9_.-]", "_", tag)[:80]))
    write(path, json.dumps(rec, indent=1) + "\n")
    return path


def replay_file(path):
    """./check replay <file>: re-run a recorded counterexample on /repo's
    current tree. exit 1 if it still fails natively, 0 if not, 2 undecided."""
    rec = json.loads(read(path))
    if rec.get("engine") != "kani" or not rec.get("playback_test"):
        print("replay file carries no concrete input (obligation: %s)" % rec.get("obligation", rec.get("harness")))
        print(rec.get("verifier_output", "")[-3000:])
        return 2
    g = K.Group(rec["group"])
    g.body += "\n" + rec["playback_test"] + "\n"
    sd = scratch_dir("replay-" + rec["property"])
    repo = copy_repo(os.path.join(sd, "repo"))
    K.splice(repo, [g])
    failed, out = native_playback(repo, rec["playback_test_name"])
    keep = [l for l in out.splitlines() if re.search(r"panicked|assert|overflow|left:|right:|test result|FAILED|error", l)]
    print("\n".join(keep[:60]))
    if failed is None:
        print("replay undecided (test did not build or run)")
        return 2
    if failed:
        print("REPRODUCED property=%s harness=%s" % (rec["property"], rec["harness"]))
        return 1
    print("not reproduced on the current tree")
    return 0
