#!/usr/bin/env python3
"""dev helper: splice the given kani groups into a scratch copy and run ONE harness with full CBMC output.
   python3 lib/kdev.py <group> <harness> [timeout_s]"""
import os, sys, subprocess, shutil
sys.path.insert(0, os.path.dirname(os.path.abspath(__file__)))
from kani_engine import load_groups, splice, KANI_TARGET
from common import copy_repo
g, h = sys.argv[1], sys.argv[2]
to = int(sys.argv[3]) if len(sys.argv) > 3 else 600
sd = "/tmp/kdev-%s" % g
shutil.rmtree(sd, ignore_errors=True)
repo = copy_repo(os.path.join(sd, "repo"))
groups = load_groups([g])
splice(repo, groups)
full = [x.full for x in groups[0].harnesses if x.name == h][0]
cmd = ["cargo", "kani", "-Z", "function-contracts", "-Z", "stubbing", "--target-dir", KANI_TARGET, "--harness", full, "--exact"] + sys.argv[4:]
env = dict(os.environ, CARGO_NET_OFFLINE="true")
try:
    p = subprocess.run(cmd, cwd=repo, env=env, capture_output=True, text=True, timeout=to)
    out = p.stdout + p.stderr
except subprocess.TimeoutExpired as e:
    out = (e.stdout or b"").decode() + (e.stderr or b"").decode() + "\nTIMEOUT"
    subprocess.run("pkill -x cbmc; pkill -x kissat; pkill -x cadical", shell=True)
open("/tmp/kdev-%s.log" % g, "w").write(out)
lines = out.splitlines()
keep = [l for l in lines if not l.startswith("Check ") and "Status: SUCCESS" not in l and "Description:" not in l and "Location:" not in l and l.strip()]
print("\n".join(keep[-60:]))
shutil.rmtree(sd, ignore_errors=True)
