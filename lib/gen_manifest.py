#!/usr/bin/env python3
"""Regenerate MANIFEST.json from lib/props.py (so it is always schema-valid)."""
import json
import os
import sys

sys.path.insert(0, os.path.dirname(os.path.abspath(__file__)))
import props as P  # noqa: E402

VERIF = os.path.dirname(os.path.dirname(os.path.abspath(__file__)))


def main():
    checks = []
    for pid in sorted(P.PROPS):
        cfg = P.PROPS[pid]
        checks.append({
            "property_id": pid,
            "quick_cmd": "./check %s --tier quick" % pid,
            "thorough_cmd": "./check %s --tier thorough" % pid,
            "evidence_file": "/verif/evidence/%s.json" % pid,
            "replay_cmd_template": "./check replay {path}",
            "engine": "contracts",
            "level_claimed": {
                "category": "proof",
                "text": cfg["level_text"],
                "design_ref": "DESIGN.md section 4, " + pid,
            },
            "level_note": cfg["level_note"],
            "technique": cfg["technique"],
        })
    man = {
        "version": 1,
        "setup_cmd": "./check setup",
        "hooks": {
            "guard": "cfg(kani)",
            "enable": "no hook lives in /repo: contracts and harness modules are kept in /verif/contracts and spliced "
                      "(additively, under #[cfg(kani)] / #[cfg_attr(kani, ..)]) into a scratch copy of /repo's working tree on every run; "
                      "Verus units are extracted mechanically from /repo's sources on every run",
            "baseline_off_cmd": "cd /repo && cargo test --workspace --no-fail-fast --offline",
            "source_commits": [],
            "add_only": True,
        },
        "engines": [
            {"name": "contracts", "path": "/verif/check",
             "serves_properties": sorted(P.PROPS),
             "kind_free_text": "contract-based deductive verification: Verus (unbounded, on mechanically extracted real functions) "
                               "and Kani/CBMC (function contracts, loop-free full-domain harnesses; bounded harnesses labelled as such)"},
        ],
        "checks": checks,
        "not_applicable": [{"property_id": k, "reason": v} for k, v in sorted(P.NOT_APPLICABLE.items())
                           if k not in P.PROPS],
        "notes": "exit 2 from a check means undecided (lost anchor, unsupported construct, timeout), never a violation. "
                 "Fix commits in /repo and their findings are listed in known_findings.txt.",
    }
    with open(os.path.join(VERIF, "MANIFEST.json"), "w") as f:
        json.dump(man, f, indent=1)
        f.write("\n")
    try:
        import jsonschema
        jsonschema.validate(man, json.load(open("/root/.vp/MANIFEST.schema.json")))
        print("MANIFEST.json valid,", len(checks), "checks,", len(man["not_applicable"]), "not applicable")
    except ImportError:
        print("MANIFEST.json written (jsonschema not available)")


if __name__ == "__main__":
    main()
