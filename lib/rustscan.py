"""Tiny lexical scanner for Rust source: masks comments/strings so that brace
matching and regex searches only see code; finds items and functions by name."""
import re


def mask(text):
    """Return text of equal length with comments, string/char literals blanked
    (newlines kept)."""
    out = list(text)
    n = len(text)
    i = 0

    def blank(a, b):
        for k in range(a, b):
            if out[k] != "\n":
                out[k] = " "

    while i < n:
        c = text[i]
        if c == "/" and i + 1 < n and text[i + 1] == "/":
            j = text.find("\n", i)
            j = n if j < 0 else j
            blank(i, j)
            i = j
        elif c == "/" and i + 1 < n and text[i + 1] == "*":
            depth = 1
            j = i + 2
            while j < n and depth:
                if text.startswith("/*", j):
                    depth += 1
                    j += 2
                elif text.startswith("*/", j):
                    depth -= 1
                    j += 2
                else:
                    j += 1
            blank(i, j)
            i = j
        elif c == '"' or (c in "br" and (i == 0 or not (text[i - 1].isalnum() or text[i - 1] == "_"))
                          and re.match(r'b?r#*"|b"', text[i:i + 12])):
            m = re.match(r'(b?)(r(#*))?"', text[i:])
            q = i + m.end() - 1  # opening quote
            if m.group(2):  # raw string
                close = '"' + m.group(3)
                k = text.find(close, q + 1)
                k = n if k < 0 else k + len(close)
            else:
                k = q + 1
                while k < n and text[k] != '"':
                    k += 2 if text[k] == "\\" else 1
                k += 1
            blank(q + 1, k - 1)
            i = k
        elif c == "'" or (c == "b" and text[i:i + 2] == "b'"):
            s = i + (1 if c == "b" else 0)
            # char literal vs lifetime
            m = re.match(r"'(\\x[0-9a-fA-F]{2}|\\u\{[0-9a-fA-F_]+\}|\\.|[^\\'])'", text[s:])
            if m:
                blank(s + 1, s + m.end() - 1)
                i = s + m.end()
            else:
                i = s + 1
        else:
            i += 1
    return "".join(out)


def match_brace(masked, open_idx):
    """Index of the brace matching masked[open_idx] (one of ([{)."""
    pairs = {"{": "}", "(": ")", "[": "]"}
    o = masked[open_idx]
    c = pairs[o]
    depth = 0
    for k in range(open_idx, len(masked)):
        ch = masked[k]
        if ch == o:
            depth += 1
        elif ch == c:
            depth -= 1
            if depth == 0:
                return k
    raise ValueError("unbalanced %s at %d" % (o, open_idx))


def _norm_ws(s):
    return re.sub(r"\s+", " ", s).strip()


def find_block(text, masked, header, start=0, end=None):
    """Find `header {` (whitespace-insensitive literal match of header text,
    anchored at a line start) -> (hdr_start, open_brace, close_brace)."""
    end = len(text) if end is None else end
    toks = re.findall(r"\w+|[^\w\s]", header)
    pat = r"(?m)^[ \t]*(?:pub(?:\([a-z]+\))?\s+)?" + r"\s*".join(re.escape(t) for t in toks) + r"\s*(?:where[^{;]*)?\{"
    m = re.compile(pat).search(masked, start, end)
    if not m:
        return None
    ob = m.end() - 1
    return m.start(), ob, match_brace(masked, ob)


def find_fn(text, masked, name, start=0, end=None):
    """Find `fn name` inside [start,end): returns dict(sig_start, body_open,
    body_close, item_start) where item_start includes attributes/doc comments."""
    end = len(text) if end is None else end
    pat = re.compile(r"(?m)^([ \t]*)((?:pub(?:\([a-z]+\))?\s+)?(?:const\s+)?(?:unsafe\s+)?fn\s+%s\b)" % re.escape(name))
    m = pat.search(masked, start, end)
    if not m:
        return None
    sig_start = m.start(2)
    # body open: first `{` at paren depth 0 after the signature start
    k = m.end()
    depth = 0
    while k < end:
        ch = masked[k]
        if ch in "([":
            k = match_brace(masked, k)
        elif ch == "<":
            pass
        elif ch == ";" and depth == 0:
            return None  # declaration without body
        elif ch == "{":
            break
        k += 1
    body_open = k
    body_close = match_brace(masked, body_open)
    # include leading attributes / doc comments
    line_start = text.rfind("\n", 0, m.start()) + 1
    item_start = line_start
    while item_start > 0:
        prev_end = item_start - 1
        prev_start = text.rfind("\n", 0, prev_end) + 1
        prev = text[prev_start:prev_end].strip()
        if prev.startswith("#[") or prev.startswith("///") or prev.startswith("//"):
            item_start = prev_start
        else:
            break
    return {"item_start": item_start, "line_start": line_start, "sig_start": sig_start, "body_open": body_open,
            "body_close": body_close, "indent": m.group(1)}


def find_item(text, masked, kind, name, start=0, end=None):
    """struct/enum/const/static/trait/type item by name -> (item_start, item_end) incl. attrs."""
    end = len(text) if end is None else end
    pat = re.compile(r"(?m)^[ \t]*(?:pub(?:\([a-z]+\))?\s+)?%s\s+%s\b" % (kind, re.escape(name)))
    m = pat.search(masked, start, end)
    if not m:
        return None
    k = m.end()
    while k < end and masked[k] not in "{;(":
        k += 1
    if masked[k] == "{":
        item_end = match_brace(masked, k) + 1
    elif masked[k] == "(":
        k2 = match_brace(masked, k)
        item_end = masked.index(";", k2) + 1
    else:
        if kind in ("const", "static"):
            # value may contain braces/brackets: scan to `;` at depth 0
            k = m.end()
            while k < end:
                ch = masked[k]
                if ch in "([{":
                    k = match_brace(masked, k)
                elif ch == ";":
                    break
                k += 1
        item_end = k + 1
    line_start = text.rfind("\n", 0, m.start()) + 1
    item_start = line_start
    while item_start > 0:
        prev_end = item_start - 1
        prev_start = text.rfind("\n", 0, prev_end) + 1
        prev = text[prev_start:prev_end].strip()
        if prev.startswith("#[") or prev.startswith("///"):
            item_start = prev_start
        else:
            break
    return item_start, item_end


def loops(masked_body):
    """Ordinal list of loops in a function body: [(kw_start, brace_open)] for
    `for`/`while`/`loop` keywords, in textual order."""
    res = []
    for m in re.finditer(r"\b(for|while|loop)\b", masked_body):
        # `for<'a>` in HRTB and `impl X for Y` do not occur in bodies we extract
        k = m.end()
        n = len(masked_body)
        ok = True
        while k < n:
            ch = masked_body[k]
            if ch in "([":
                k = match_brace(masked_body, k)
            elif ch == "{":
                break
            elif ch == ";":
                ok = False
                break
            k += 1
        if ok and k < n:
            res.append((m.start(), k))
    return res
