#!/usr/bin/env python3
"""dev helper: generate a unit, run verus, print rendered diagnostics."""
import os, sys
sys.path.insert(0, os.path.dirname(os.path.abspath(__file__)))
import verus_engine as V
from common import write
u = V.Unit(sys.argv[1])
mf = len(sys.argv) > 2 and sys.argv[2] == "mf"
text = u.generate(mf)
d = "/tmp/vdev"; os.makedirs(d, exist_ok=True)
p = os.path.join(d, u.name + ".rs"); write(p, text)
rc, js, diags, wall, cmd = V.run_verus_file(p, 900, u.rlimit, 8)
for x in diags:
    if x.get("level") in ("error", "warning", "note") and "rendered" in x:
        r = x["rendered"]
        if x.get("level") in ("warning", "note") and len(sys.argv) <= 3 and "function body check" not in r: continue
        print(r)
print("rc", rc, js and js.get("verification-results"), "wall %.1f" % wall)
if js:
    for k, v in V._breakdown(js).items():
        print("  %-60s %s %dms" % (k, v.get("success"), v.get("time")))
print(u.norm)
