"""./check setup: warm the offline caches (Kani dependency build, Verus first run)."""
import os
import sys

import kani_engine as K
from common import CACHE, Undecided, copy_repo, log, read, run, scratch_dir, write


def main():
    os.makedirs(os.path.join(CACHE, "logs"), exist_ok=True)
    # Verus: first run pays the vstd import
    d = scratch_dir("setup")
    f = os.path.join(d, "warm.rs")
    write(f, "use vstd::prelude::*;\nverus! { fn id(x: u8) -> (r: u8) ensures r == x { x } }\nfn main() {}\n")
    rc, out, wall = run(["verus", f], cwd=d, timeout=600)
    log("[setup] verus warm-up rc=%s %.1fs" % (rc, wall))
    if rc != 0:
        log(out[-2000:])
        return 2
    # Kani: compile the dependency graph once into the shared target dir
    repo = copy_repo(os.path.join(d, "repo"))
    p = os.path.join(repo, "src", "lib.rs")
    write(p, read(p) + "\n#[cfg(kani)]\nmod verif_kani_warm {\n    #[kani::proof]\n    fn warm() { let x: u8 = kani::any(); assert!(x as u16 <= 255); }\n}\n")
    write(os.path.join(repo, "Cargo.toml"), read(os.path.join(repo, "Cargo.toml")) + K.LINTS)
    rc, out, wall = run(["cargo", "kani", "-Z", "function-contracts", "-Z", "stubbing", "--target-dir", K.KANI_TARGET,
                         "--harness", "verif_kani_warm::warm"], cwd=repo, timeout=1800)
    log("[setup] kani warm-up rc=%s %.1fs" % (rc, wall))
    if rc != 0 or "VERIFICATION:- SUCCESSFUL" not in out:
        log(out[-3000:])
        return 2
    print("setup ok")
    return 0
