"""Engine V: Verus on functions extracted mechanically from /repo on every run.

A unit is a template (contracts/verus/<unit>.rs): hand-written Verus text (spec
functions, lemmas, trusted prelude) plus directives that pull the *current*
text of named items out of /repo and insert contract clauses / loop invariants /
proof blocks at name- and ordinal-based anchors:

  //@ source src/common.rs
  //@ item struct IOQueue
  //@ fn impl IOQueue :: consume ret=r as=newname
  //@+ requires ...            contract clauses, inserted between signature and body
  //@loop 1 invariant ...      inserted before the `{` of the 1st loop of the body
  //@forit 1 it                `for p in E` -> `for p in it: E` (ghost iterator name)
  //@proof start|loop1.start|loop1.end|before:/re/|after:/re/ <text>
  //@subst <label> /regex/replacement/    logged normalisation; must match >= 1 time

Everything the extraction changes is a logged normalisation; a lost anchor,
a type error or an unsupported construct is Undecided (exit 2), never a
violation. Only verification failures located in extracted functions count as
failed obligations.
"""
import json
import os
import re
import shlex
from concurrent.futures import ThreadPoolExecutor

import rustscan as RS
from common import CACHE, REPO, VERIF, Undecided, log, read, run, scratch_dir, write

VERUS_DIR = os.path.join(VERIF, "contracts", "verus")

KEEP_DERIVES = {"Clone", "Copy", "PartialEq", "Eq"}

VERIF_FAIL = (
    "postcondition not satisfied", "precondition not satisfied", "invariant not satisfied",
    "assertion failed", "possible arithmetic underflow/overflow", "decreases not satisfied",
    "possible division by zero", "loop invariant not", "unreachable_unchecked", "failed this",
    "possible bit shift underflow/overflow", "assertion failure", "could not prove termination",
    "type invariant not satisfied", "cannot show invariant", "may panic", "possible overflow",
)


class Obligation:
    def __init__(self, name, function, status, kind="", message="", source=""):
        self.name, self.function, self.status, self.kind, self.message, self.source = (
            name, function, status, kind, message, source)


class UnitResult:
    def __init__(self, name):
        self.name = name
        self.obligations = []
        self.cmd = ""
        self.solver_s = 0.0
        self.trusted = []
        self.normalisations = {}
        self.functions = []
        self.must_fail_ok = 0


class ExtractedFn:
    def __init__(self, label, src, header, name):
        self.label, self.src, self.header, self.name = label, src, header, name
        self.out_name = name
        self.text = ""
        self.line_start = self.line_end = 0
        self.has_contract = False


def n1_strip(text, norm):
    """N1: attributes Verus does not know, doc comments, tracing statements."""
    def cnt(label, n):
        if n:
            norm[label] = norm.get(label, 0) + n
    text, n = re.subn(r"(?m)^[ \t]*///.*\n", "", text)
    cnt("N1 doc comments removed", n)
    text, n = re.subn(r"(?m)^[ \t]*#\[(inline(\([a-z]+\))?|must_use|tracing::instrument[^\]]*|allow\([^\]]*\)|doc[^\]]*|cfg_attr\([^\]]*\))\][ \t]*\n", "", text)
    cnt("N1 attributes removed (#[inline], #[tracing::instrument], #[allow], #[must_use])", n)
    text, n = re.subn(r"(?m)^[ \t]*tracing::(trace|debug|info|warn|error)!\((?:[^;]|\n)*?\);[ \t]*\n", "", text)
    cnt("N1 tracing::*! statements removed", n)

    def derive(m):
        keep = [d.strip() for d in m.group(1).split(",") if d.strip() in KEEP_DERIVES]
        dropped = [d.strip() for d in m.group(1).split(",") if d.strip() and d.strip() not in KEEP_DERIVES]
        if dropped:
            norm["N1 derives dropped (%s)" % ",".join(sorted(dropped))] = norm.get(
                "N1 derives dropped (%s)" % ",".join(sorted(dropped)), 0) + 1
        return ("#[derive(%s)]" % ", ".join(keep)) if keep else ""
    text = re.sub(r"#\[derive\(([^)]*)\)\]", derive, text)
    return text


def _parse_subst(arg):
    # <label words> /regex/replacement/
    m = re.match(r"(.*?)\s*/((?:[^/\\]|\\.)*)/((?:[^/\\]|\\.)*)/\s*$", arg)
    if not m:
        raise Undecided("bad //@subst: " + arg)
    unesc = lambda s: s.replace("\\/", "/")
    # replacement: only \1..\9 are back-references, every other backslash is literal
    rp = re.sub(r"\\(?!\d)", r"\\\\", unesc(m.group(3)))
    return m.group(1).strip() or "subst", unesc(m.group(2)), rp


class Unit:
    def __init__(self, name):
        self.name = name
        self.path = os.path.join(VERUS_DIR, name + ".rs")
        self.template = read(self.path)
        # `//@ include <file>`: textual inclusion of shared specification text (expanded before anything else)
        def _inc(m):
            return read(os.path.join(VERUS_DIR, m.group(1).strip()))
        seen_inc = set()
        def _inc_once(m):
            f = m.group(1).strip()
            if f in seen_inc:      # a file included through two routes is expanded once
                return ""
            seen_inc.add(f)
            return read(os.path.join(VERUS_DIR, f))
        for _ in range(40):        # one include per round; includes may include (bounded)
            if not re.search(r"(?m)^[ \t]*//@ include (.+)$", self.template):
                break
            self.template = re.sub(r"(?m)^[ \t]*//@ include (.+)$", _inc_once, self.template, count=1)
        self.props = []
        self.norm = {}
        self.fns = []
        self.sources = {}
        self.tier = "quick"
        m = re.search(r"(?m)^//@ props (.*)$", self.template)
        if m:
            self.props = m.group(1).split()
        m = re.search(r"(?m)^//@ tier (\w+)$", self.template)
        if m:
            self.tier = m.group(1)
        self.rlimit = None
        m = re.search(r"(?m)^//@ rlimit (\d+)$", self.template)
        if m:
            self.rlimit = int(m.group(1))

    def _src(self, rel):
        if rel not in self.sources:
            p = os.path.join(REPO, rel)
            if not os.path.exists(p):
                raise Undecided("lost anchor: source file %s" % rel)
            t = read(p)
            self.sources[rel] = (t, RS.mask(t))
        return self.sources[rel]

    # -- extraction ---------------------------------------------------------
    def _extract_item(self, src, kind, name, extra):
        text, masked = self._src(src)
        r = RS.find_item(text, masked, kind, name)
        if not r:
            raise Undecided("lost anchor: %s %s in %s" % (kind, name, src))
        t = n1_strip(text[r[0]:r[1]] + "\n", self.norm)
        for kind_, arg in extra:
            if kind_ == "subst":
                label, rx, rp = _parse_subst(arg)
                t, n = re.subn(rx, rp, t)
                if n == 0:
                    raise Undecided("lost anchor: subst '%s' on %s %s" % (label, kind, name))
                self.norm[label] = self.norm.get(label, 0) + n
        return t

    def _extract_fn(self, src, header, name, opts, extra):
        text, masked = self._src(src)
        lo, hi = 0, len(text)
        if header != "-":
            b = RS.find_block(text, masked, header)
            if not b:
                raise Undecided("lost anchor: `%s` in %s" % (header, src))
            lo, hi = b[1], b[2]
        f = RS.find_fn(text, masked, name, lo, hi)
        if not f:
            raise Undecided("lost anchor: fn %s in `%s` (%s)" % (name, header, src))
        sig = text[f["sig_start"]:f["body_open"]]
        sig_m = masked[f["sig_start"]:f["body_open"]]
        body = text[f["body_open"]:f["body_close"] + 1]
        body_m = masked[f["body_open"]:f["body_close"] + 1]
        attrs = text[f["item_start"]:f["line_start"]]
        indent = f["indent"]

        # ---- insertions into the body, applied from the back so offsets stay valid
        ins = []  # (offset_in_body, text)
        lps = RS.loops(body_m)
        clauses, forit = {}, {}
        contract = []
        pre_attrs = []
        substs = []
        for kind, arg in extra:
            if kind == "+":
                contract.append(arg)
            elif kind == "attr":
                pre_attrs.append(arg)
            elif kind == "loop":
                k, _, t = arg.partition(" ")
                clauses.setdefault(int(k), []).append(t)
            elif kind == "forit":
                k, _, t = arg.partition(" ")
                forit[int(k)] = t.strip()
            elif kind == "subst":
                substs.append(_parse_subst(arg) + (True,))
            elif kind == "subst?":
                substs.append(_parse_subst(arg) + (False,))
            elif kind == "proof":
                anchor, _, t = arg.partition(" ")
                if anchor == "start":
                    ins.append((1, "\n" + t))
                elif re.match(r"loop\d+\.(start|end)$", anchor):
                    k = int(re.match(r"loop(\d+)", anchor).group(1))
                    if k > len(lps):
                        raise Undecided("lost anchor: loop %d of fn %s" % (k, name))
                    ob = lps[k - 1][1]
                    cb = RS.match_brace(body_m, ob)
                    ins.append((ob + 1, "\n" + t) if anchor.endswith("start") else (cb, t + "\n"))
                elif anchor.startswith("before:") or anchor.startswith("after:"):
                    where, _, rx = anchor.partition(":")
                    rx = rx.strip("/")
                    # the regex may contain spaces encoded as \s; search line-wise on masked text
                    mm = re.search(rx, body_m)
                    if not mm:
                        raise Undecided("lost anchor: /%s/ in fn %s" % (rx, name))
                    if where == "before":
                        ls = body.rfind("\n", 0, mm.start()) + 1
                        ins.append((ls, t + "\n"))
                    else:
                        le = body.find("\n", mm.end())
                        ins.append((le, "\n" + t))
                else:
                    raise Undecided("bad proof anchor %s" % anchor)
        for k, cl in clauses.items():
            if k > len(lps):
                raise Undecided("lost anchor: loop %d of fn %s" % (k, name))
            ins.append((lps[k - 1][1], "\n" + "\n".join(cl) + "\n"))
        for k, itname in forit.items():
            if k > len(lps):
                raise Undecided("lost anchor: loop %d of fn %s" % (k, name))
            kw = lps[k - 1][0]
            mm = re.compile(r"\bin\b").search(body_m, kw, lps[k - 1][1])
            if not mm:
                raise Undecided("lost anchor: `in` of for-loop %d in fn %s" % (k, name))
            ins.append((mm.end(), " %s:" % itname))
            self.norm["N10 ghost iterator name added to for-loop"] = self.norm.get(
                "N10 ghost iterator name added to for-loop", 0) + 1
        for off, t in sorted(ins, key=lambda x: -x[0]):
            body = body[:off] + t + body[off:]

        # ---- signature: name the return value, rename
        if "ret" in opts:
            depth = 0
            k = 0
            arrow = None
            while k < len(sig_m):
                ch = sig_m[k]
                if ch in "([":
                    k = RS.match_brace(sig_m, k)
                elif sig_m.startswith("->", k):
                    arrow = k
                    break
                k += 1
            if arrow is not None:
                wm = re.search(r"\bwhere\b", sig_m[arrow:])
                tend = arrow + wm.start() if wm else len(sig)
                ty = sig[arrow + 2:tend].strip()
                sig = sig[:arrow] + "-> (%s: %s)" % (opts["ret"], ty) + (" " + sig[tend:] if wm else "")
                self.norm["N10 return value named in signature"] = self.norm.get(
                    "N10 return value named in signature", 0) + 1
            else:
                raise Undecided("fn %s has no return type to name" % name)
        out_name = opts.get("as", name)
        if out_name != name:
            sig = re.sub(r"\bfn\s+%s\b" % re.escape(name), "fn " + out_name, sig, count=1)
            self.norm["N5 method re-homed/renamed (trait linkage dropped)"] = self.norm.get(
                "N5 method re-homed/renamed (trait linkage dropped)", 0) + 1
        if opts.get("vis") == "strip":
            sig = re.sub(r"^pub(\([a-z]+\))?\s+", "", sig)
        sig = sig.rstrip()
        full = attrs + indent + sig
        if contract:
            full += "\n" + "\n".join(indent + "    " + c for c in contract) + "\n" + indent
        else:
            full += " "
        full += body + "\n"
        full = n1_strip(full, self.norm)
        for label, rx, rp, required in substs:
            full, n = re.subn(rx, rp, full)
            if n == 0 and required:
                raise Undecided("lost anchor: subst '%s' in fn %s" % (label, name))
            if n:
                self.norm[label] = self.norm.get(label, 0) + n
        if pre_attrs:
            full = "\n".join(indent + a for a in pre_attrs) + "\n" + full
        ef = ExtractedFn("%s::%s" % (header if header != "-" else src, name), src, header, name)
        ef.out_name = out_name
        ef.text = full
        ef.has_contract = bool(contract)
        ef.external = any("external" in a for a in pre_attrs)
        return ef

    # -- template expansion -------------------------------------------------
    def generate(self, must_fail=False):
        """Returns (text, fns). With must_fail, `ensures false` is added to every
        extracted function under contract (vacuity guard)."""
        self.norm = {}
        self.fns = []
        out = []
        lines = self.template.split("\n")
        src = None
        i = 0
        while i < len(lines):
            ln = lines[i]
            s = ln.strip()
            if s.startswith("//@ source "):
                src = s.split(None, 2)[2].strip()
                i += 1
                continue
            if s.startswith("//@ props") or s.startswith("//@ unit") or s.startswith("//@ tier") or s.startswith("//@ rlimit") or s.startswith("//@#"):
                i += 1
                continue
            optional = s.startswith("//@ fn? ")
            if optional:
                s = "//@ fn " + s[len("//@ fn? "):]
            if s.startswith("//@ item ") or s.startswith("//@ fn "):
                extra = []
                j = i + 1
                while j < len(lines):
                    t = lines[j].strip()
                    m = re.match(r"//@(\+|loop|proof|subst\?|subst|forit|attr)\s?(.*)$", t)
                    if not m:
                        break
                    extra.append((m.group(1), m.group(2)))
                    j += 1
                if s.startswith("//@ item "):
                    parts = s.split()
                    kind, name = parts[2], parts[3]
                    opts = dict(kv.split("=", 1) for kv in parts[4:])
                    out.append(("item", self._extract_item(opts.get("src", src), kind, name, extra)))
                else:
                    rest = s[len("//@ fn "):]
                    header, _, tail = rest.partition(" :: ")
                    parts = shlex.split(tail)
                    name = parts[0]
                    opts = dict(kv.split("=", 1) for kv in parts[1:])
                    try:
                        ef = self._extract_fn(opts.get("src", src), header.strip(), name, opts, extra)
                    except Undecided:
                        if not optional:
                            raise
                        # an optional helper (`//@ fn?`) that the source no longer has: nothing to put under contract
                        lab = "N22 optional helper fn absent from the source: " + name
                        self.norm[lab] = self.norm.get(lab, 0) + 1
                        i = j
                        continue
                    if must_fail and (must_fail is True or must_fail == ef.out_name) and ef.has_contract and not ef.external:
                        if re.search(r"(?m)^\s*ensures\b", ef.text):
                            ef.text = re.sub(r"(?m)^(\s*)ensures\b", r"\1ensures false,", ef.text, count=1)
                        else:
                            ef.text = ef.text  # no ensures: nothing to make fail
                    self.fns.append(ef)
                    out.append(("fn", ef))
                i = j
                continue
            if s.startswith("//@"):
                raise Undecided("unknown directive in %s: %s" % (self.name, s))
            out.append(("raw", ln + "\n"))
            i += 1
        text = ""
        for kind, seg in out:
            if kind == "fn":
                seg.line_start = text.count("\n") + 1
                text += seg.text
                seg.line_end = text.count("\n")
            else:
                text += seg
        return text

    def trusted_scan(self, text):
        """Mechanical scan of the generated file for every assumption left."""
        found = []
        masked = RS.mask(text)
        for m in re.finditer(r"\b(assume_specification|external_body|external_type_specification|external_fn_specification|external_trait_specification|admit|assume)\b", masked):
            w = m.group(1)
            ls = text.rfind("\n", 0, m.start()) + 1
            # describe by the next item line
            tail = text[m.start():m.start() + 400]
            if w in ("assume", "admit"):
                if not re.match(r"(assume|admit)\s*\(", masked[m.start():m.start() + 12]):
                    continue
                found.append("verus %s(..) at generated line %d" % (w, text.count("\n", 0, m.start()) + 1))
                continue
            mm = re.search(r"(assume_specification[^\n;{]*|fn\s+\w+|struct\s+\w+|trait\s+\w+)", tail)
            found.append("verus %s: %s" % (w, re.sub(r"\s+", " ", mm.group(1)) if mm else "?"))
        return sorted(set(found))


def run_verus_file(path, timeout=600, rlimit=None, threads=8):
    cmd = ["verus", path, "--output-json", "--time-expanded", "--num-threads", str(threads)]
    if rlimit:
        cmd += ["--rlimit", str(rlimit)]
    cmd += ["--", "--error-format=json"]
    import subprocess
    import time as _t
    t0 = _t.time()
    e = dict(os.environ)
    try:
        p = subprocess.run(cmd, cwd=os.path.dirname(path), capture_output=True, text=True, timeout=timeout, env=e)
    except subprocess.TimeoutExpired:
        return None, None, [], _t.time() - t0, " ".join(cmd)
    try:
        js = json.loads(p.stdout[p.stdout.index("{"):])
    except Exception:
        js = None
    diags = []
    for ln in p.stderr.splitlines():
        if ln.startswith("{"):
            try:
                d = json.loads(ln)
                if d.get("$message_type") == "diagnostic" or "message" in d:
                    diags.append(d)
            except Exception:
                pass
        elif ln.strip():
            diags.append({"level": "note", "message": ln, "spans": [], "rendered": ln})
    return p.returncode, js, diags, _t.time() - t0, " ".join(cmd)


def _breakdown(js):
    res = {}
    try:
        for mod in js["times-ms"]["smt"]["smt-run-module-times"]:
            for f in mod.get("function-breakdown", []):
                res[f["function"]] = f
    except Exception:
        pass
    return res


def verify_unit(unit, tier, workdir):
    res = UnitResult(unit.name)
    text = unit.generate(False)
    fns = list(unit.fns)
    norm = dict(unit.norm)
    path = os.path.join(workdir, unit.name + ".rs")
    write(path, text)
    write(os.path.join(CACHE, "logs", "verus-%s.rs" % unit.name), text)
    # vacuity variants: one file per contracted function, with `ensures false` added to that function only
    mf_jobs = []
    for ef in fns:
        if getattr(ef, "external", False) or not ef.has_contract:
            continue
        t = unit.generate(ef.out_name)
        tgt = [f for f in unit.fns if f.out_name == ef.out_name][0]
        if "ensures false," not in tgt.text:
            continue
        pth = os.path.join(workdir, "%s_mf_%s.rs" % (unit.name, ef.out_name))
        write(pth, t)
        mf_jobs.append((ef.out_name, pth, tgt.line_start, tgt.line_end))
    with ThreadPoolExecutor(14) as ex:
        fut = ex.submit(run_verus_file, path, 900, unit.rlimit, 8)
        mf_futs = [(j, ex.submit(run_verus_file, j[1], 300, None, 1)) for j in mf_jobs]
        rc, js, diags, wall, cmd = fut.result()
        mf_results = [(j, f.result()) for j, f in mf_futs]
    res.cmd = "verus <generated %s.rs: template contracts/verus/%s.rs + items extracted from /repo> --output-json --time-expanded" % (unit.name, unit.name)
    res.normalisations = norm
    res.trusted = unit.trusted_scan(text)
    write(os.path.join(CACHE, "logs", "verus-%s.diag" % unit.name),
          "\n".join(d.get("rendered") or d.get("message", "") for d in diags))
    if rc is None or js is None:
        raise Undecided("verus produced no result for unit %s (timeout or crash): %s" % (
            unit.name, "\n".join(d.get("message", "") for d in diags)[:1500]))
    vr = js.get("verification-results", {})
    errors = [d for d in diags if d.get("level") == "error" and not d.get("message", "").startswith("aborting due")]
    bd = _breakdown(js)
    try:
        res.solver_s = js["times-ms"]["smt"]["smt-run"] / 1000.0
    except Exception:
        pass

    def fn_of_line(line):
        for ef in fns:
            if ef.line_start <= line <= ef.line_end:
                return ef
        return None

    # classify errors
    per_fn = {}
    sync_fn = {}
    other_verif = []
    hard = []
    for d in errors:
        msg = d.get("message", "")
        is_verif = any(k in msg for k in VERIF_FAIL)
        prim = [s for s in d.get("spans", []) if s.get("is_primary")] or d.get("spans", [])
        efs = [fn_of_line(s["line_start"]) for s in prim] + [fn_of_line(s["line_start"]) for s in d.get("spans", [])]
        efs = [e for e in efs if e]
        # a failed postcondition's primary span is the ensures clause (inside the fn's own range);
        # a failed precondition's primary span is the call site: both lie in the function whose body is at fault
        if not is_verif:
            if "rlimit" in msg.lower() or "resource limit" in msg.lower():
                hard.append("rlimit: " + (d.get("rendered") or msg)[:600])
            else:
                hard.append((d.get("rendered") or msg)[:1200])
            continue
        if efs:
            # attribute to the function in which the failing *body* lies: prefer a span inside a body
            # a postcondition clause marked /*sync*/ ties a code-derived functional model to the body; when only such
            # clauses fail, the model is out of date (proofs built on it no longer apply): undecided, not a violation
            is_sync = False
            if "postcondition not satisfied" in msg:
                for sp in d.get("spans", []):
                    if "failed this postcondition" in (sp.get("label") or ""):
                        if "/*sync*/" in " ".join(t.get("text", "") for t in sp.get("text", [])):
                            is_sync = True
            if is_sync:
                sync_fn.setdefault(efs[0].label, []).append((msg, d.get("rendered", "")))
            else:
                per_fn.setdefault(efs[0].label, []).append((msg, d.get("rendered", "")))
        else:
            other_verif.append((msg, d.get("rendered", "")))
    if vr.get("encountered-vir-error") or (hard and not bd):
        raise Undecided("verus rejected unit %s (unsupported construct / type error after extraction):\n%s" % (
            unit.name, "\n".join(hard)[:3000]))
    if hard:
        raise Undecided("verus unit %s: %s" % (unit.name, "\n".join(hard)[:3000]))
    if other_verif:
        # a failing hand-written lemma/spec is a defect of the machinery, not of /repo
        raise Undecided("verus unit %s: proof obligation outside extracted code failed (machinery, not /repo):\n%s" % (
            unit.name, "\n".join(r for _, r in other_verif)[:3000]))

    # obligations: one per function with SMT queries (extracted fns + lemmas)
    def bd_for(out_name):
        return [v for k, v in bd.items() if k.split("::")[-1] == out_name]

    seen = set()
    for ef in fns:
        if getattr(ef, "external", False):
            continue
        name = "verus:%s::%s" % (unit.name, ef.out_name)
        res.functions.append("%s (%s)" % (ef.label, ef.src))
        seen.add(ef.out_name)
        if ef.label in per_fn:
            kinds = sorted(set(m for m, _ in per_fn[ef.label]))
            res.obligations.append(Obligation(
                name, ef.label, "failed", "; ".join(kinds),
                "\n".join(r for _, r in per_fn[ef.label])[:6000], ef.text))
        elif ef.label in sync_fn:
            res.obligations.append(Obligation(
                name, ef.label, "undecided", "",
                "only the /*sync*/ clause (code-derived functional model) fails: the model no longer describes the body; "
                "property-level clauses of this function still hold\n" + "\n".join(r for _, r in sync_fn[ef.label])[:3000]))
        else:
            b = bd_for(ef.out_name)
            if b and not all(x.get("success") for x in b):
                res.obligations.append(Obligation(name, ef.label, "undecided", "", "verus reports failure without a located error"))
            else:
                res.obligations.append(Obligation(name, ef.label, "proved"))
    for k, v in bd.items():
        short = k.split("::")[-1]
        if short in seen:
            continue
        if v.get("success"):
            res.obligations.append(Obligation("verus:%s::lemma:%s" % (unit.name, short), k, "proved"))
        else:
            res.obligations.append(Obligation("verus:%s::lemma:%s" % (unit.name, short), k, "undecided", "", "lemma failed"))

    # vacuity: with `ensures false` added, each contracted function must FAIL (its precondition is
    # satisfiable and the end of its body reachable)
    for (out_name, pth, l0, l1), (rc2, js2, diags2, wall2, _) in mf_results:
        if js2 is None:
            raise Undecided("vacuity run of %s::%s gave no result" % (unit.name, out_name))
        errs2 = [d for d in diags2 if d.get("level") == "error"]
        # an rlimit hit in the variant means "could not prove `ensures false`" - which is what the guard wants
        bad2 = [d for d in errs2 if not any(k in d.get("message", "") for k in VERIF_FAIL)
                and not d.get("message", "").startswith("aborting due")
                and "rlimit" not in d.get("message", "").lower()]
        rl2 = [d for d in errs2 if "rlimit" in d.get("message", "").lower()]
        if bad2:
            raise Undecided("vacuity run of %s::%s did not compile: %s" % (unit.name, out_name, bad2[0].get("rendered", "")[:800]))
        failed = any(l0 <= sp["line_start"] <= l1 for d in errs2 for sp in d.get("spans", [])) or bool(rl2)
        if failed:
            res.must_fail_ok += 1
        else:
            res.obligations.append(Obligation(
                "verus:%s::%s::vacuity" % (unit.name, out_name), out_name, "undecided", "",
                "vacuity guard: `ensures false` verified - precondition unsatisfiable or body end unreachable"))
    return res


def run_units(prop, units, tier, only=None):
    wd = scratch_dir("verus-" + prop)
    todo = []
    for name in units:
        u = Unit(name)
        if tier == "quick" and u.tier != "quick":
            continue
        if only and name not in only and not any(o.startswith("c") for o in only):
            continue
        todo.append(u)
    results = []
    with ThreadPoolExecutor(max(1, min(4, len(todo)))) as ex:
        for r in ex.map(lambda u: verify_unit(u, tier, wd), todo):
            results.append(r)
    return results
