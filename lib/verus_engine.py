def run_units(prop, units, tier, only=None):
    return []
