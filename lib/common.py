"""Shared helpers: paths, scratch copies, evidence, known findings, exit protocol."""
import atexit
import json
import os
import re
import shutil
import subprocess
import sys
import time

VERIF = os.path.dirname(os.path.dirname(os.path.abspath(__file__)))
REPO = os.environ.get("VERIF_REPO", "/repo")
CACHE = os.path.join(VERIF, ".cache")
EVIDENCE_DIR = os.path.join(VERIF, "evidence")
REPLAY_DIR = os.path.join(VERIF, "replay")
KNOWN_FINDINGS = os.path.join(VERIF, "known_findings.txt")
SCRATCH_ROOT = os.environ.get("VERIF_SCRATCH", "/tmp/verif-scratch")

EXIT_OK, EXIT_VIOLATION, EXIT_UNDECIDED = 0, 1, 2

OFFLINE_ENV = {
    "CARGO_NET_OFFLINE": "true",
    "GOPROXY": "off",
    "PIP_NO_INDEX": "1",
}


class Undecided(Exception):
    """Infrastructure problem / lost anchor / unsupported construct / timeout.
    Never reported as a VIOLATION (exit 2)."""


def log(*a):
    print(*a, file=sys.stderr, flush=True)


_scratch_dirs = []


def _cleanup():
    for d in _scratch_dirs:
        shutil.rmtree(d, ignore_errors=True)


atexit.register(_cleanup)


def scratch_dir(tag):
    """Fresh scratch directory outside /repo and /verif, removed at exit."""
    d = os.path.join(SCRATCH_ROOT, "%s-%d" % (tag, os.getpid()))
    shutil.rmtree(d, ignore_errors=True)
    os.makedirs(d)
    _scratch_dirs.append(d)
    return d


def copy_repo(dst):
    """Copy /repo's *current working tree* (not HEAD) without build output."""
    os.makedirs(dst, exist_ok=True)
    r = subprocess.run(
        ["rsync", "-a", "--delete", "--exclude", "/target", "--exclude", "/.git",
         REPO.rstrip("/") + "/", dst.rstrip("/") + "/"],
        capture_output=True, text=True)
    if r.returncode != 0:
        raise Undecided("rsync of /repo failed: " + r.stderr)
    return dst


def repo_head():
    try:
        h = subprocess.run(["git", "-C", REPO, "rev-parse", "--short", "HEAD"],
                           capture_output=True, text=True).stdout.strip()
        dirty = subprocess.run(["git", "-C", REPO, "status", "--porcelain", "--untracked-files=no"],
                               capture_output=True, text=True).stdout.strip()
        return h + ("+dirty" if dirty else "")
    except Exception:
        return "unknown"


def read(path):
    with open(path, encoding="utf-8") as f:
        return f.read()


def write(path, text):
    os.makedirs(os.path.dirname(path), exist_ok=True)
    with open(path, "w", encoding="utf-8") as f:
        f.write(text)


# ---------------------------------------------------------------------------
# known findings


class Findings:
    """known_findings.txt: lines
         finding: property=<id> obligation=<name> <free text>
         fixed: property=<id> <commit> <what failed>
       A `finding:` suppresses exactly the obligation it names (for that
       property); `fixed:` suppresses nothing. Never written at run time."""

    def __init__(self):
        self.findings = []  # (prop, obligation, text)
        self.fixed = []
        if os.path.exists(KNOWN_FINDINGS):
            for line in read(KNOWN_FINDINGS).splitlines():
                line = line.strip()
                if line.startswith("finding:"):
                    m = re.match(r"finding:\s+property=(\S+)\s+obligation=(\S+)\s*(.*)", line)
                    if m:
                        self.findings.append(m.groups())
                elif line.startswith("fixed:"):
                    self.fixed.append(line)

    def match(self, prop, obligation):
        for p, o, t in self.findings:
            if p == prop and o == obligation:
                return t
        return None


# ---------------------------------------------------------------------------
# evidence


def write_evidence(prop, tier, coverage, assumptions, wall_s, violations, seed=0):
    ev = {
        "property_id": prop,
        "tier": tier,
        "seed": seed,
        "level": "proof",
        "coverage": coverage,
        "assumptions": assumptions,
        "wall_s": round(wall_s, 2),
        "violations": violations,
        "repo": repo_head(),
        "written_at": time.strftime("%Y-%m-%dT%H:%M:%SZ", time.gmtime()),
    }
    path = os.path.join(EVIDENCE_DIR, prop + ".json")
    write(path, json.dumps(ev, indent=1, sort_keys=False) + "\n")
    return path


def run(cmd, cwd=None, env=None, timeout=None, rss_gb=None):
    """Run a command in its own process group; return (rc, stdout+stderr, wall).
    rc=None on timeout or when the RSS watchdog (sum over the group) fires."""
    import signal
    import tempfile
    import threading
    e = dict(os.environ)
    e.update(OFFLINE_ENV)
    if env:
        e.update(env)
    t0 = time.time()
    outf = tempfile.TemporaryFile(mode="w+b")
    p = subprocess.Popen(cmd, cwd=cwd, env=e, stdout=outf, stderr=subprocess.STDOUT,
                         start_new_session=True)
    killed = []

    def rss_of_group(pgid):
        total = 0
        for d in os.listdir("/proc"):
            if not d.isdigit():
                continue
            try:
                with open("/proc/%s/stat" % d) as f:
                    st = f.read()
                fields = st[st.rindex(")") + 2:].split()
                if int(fields[2]) != pgid:
                    continue
                total += int(fields[21]) * 4096
            except Exception:
                pass
        return total

    def watchdog():
        while p.poll() is None:
            if timeout and time.time() - t0 > timeout:
                killed.append("timeout")
            elif rss_gb and rss_of_group(p.pid) > rss_gb * (1 << 30):
                killed.append("rss")
            if killed:
                try:
                    os.killpg(p.pid, signal.SIGKILL)
                except Exception:
                    pass
                return
            time.sleep(1.0)

    th = threading.Thread(target=watchdog, daemon=True)
    th.start()
    p.wait()
    th.join(timeout=2)
    outf.seek(0)
    out = outf.read().decode("utf-8", "replace")
    outf.close()
    if killed:
        return None, out + "\n[killed: %s]\n" % killed[0], time.time() - t0
    return p.returncode, out, time.time() - t0
