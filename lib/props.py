"""Per-property configuration: which contract groups/units decide it, what stays assumed."""

COMMON_TRUSTED = [
    "rustc + Kani 0.68 codegen + CBMC 6.11 + CaDiCaL (bit-precise machine arithmetic, no idealisation)",
    "Verus 0.2026.09.13 + Z3 (overflow checked on every machine-integer operation)",
    "splicer: appends #[cfg(kani)] child modules and inserts #[cfg_attr(kani, ..)] lines only",
]

PROPS = {
    "C08": {
        "kani": ["c08_bounds"],
        "verus": [],
        "explanation": "61 ViewBounds impls + range_bounds, each compared with one Python-slice oracle over i128; "
                       "loop-free, full domain of the selector type and every n <= isize::MAX: complete proofs.",
        "assumptions": [
            "axis length n <= isize::MAX (type invariant of Vec/slice backed surfaces; larger n excluded by kani::assume)",
            "oracle py_slice/py_index written from the property statement (NumPy semantics) is the reference",
            "Kani does not prove termination (functions are loop-free)",
        ],
        "trusted_base": COMMON_TRUSTED,
        "technique": "Kani/CBMC loop-free full-domain harness per impl against a spec oracle (complete proof)",
        "level_text": "Every ViewBounds impl (61) and range_bounds proved equal to a Python-slice oracle over i128 for all "
                      "values of the selector type and all axis lengths <= isize::MAX; includes absence of overflow/panic. "
                      "Loop-free symbolic execution over the full input domain is a complete proof.",
        "level_note": "Trusts rustc/Kani/CBMC; n <= isize::MAX assumed; the oracle is transcribed from the statement.",
    },
}

NOT_APPLICABLE = {
    "C01": "monolithic TerminalRenderer::frame over trait objects/HashMap/Arc; the property needs a terminal screen model as ghost state over whole histories; no callee carries it",
    "C03": "relational over read schedules of a run-time-built DFA + SmallVec + boxed matchers; tokeniser half quantifies over NFA::compile; outside Verus and intractable for CBMC",
    "C12": "single function mixing f32 quantisation, HashMap iteration order, LRU and core::fmt; property defined through a sixel interpreter; nothing smaller carries a contract",
    "C15": "soundness of Thompson/power-set construction over BTreeMap/BTreeSet/Rc; no specs in Verus, intractable in CBMC",
    "C17": "threads, signals, select, termios, Drop ordering - no concurrency/OS model in either verifier",
    "C18": "recursive BTreeMap trie via entry/closure APIs over all histories; str parsers - outside both verifiers",
    "C19": "serde visitors / serde_json / str formatting and parsing - outside both verifiers",
    # claimed later as their checks are built; until then honestly not claimed
    "C02": "check not built yet", "C04": "check not built yet", "C05": "check not built yet", "C06": "check not built yet",
    "C07": "check not built yet", "C09": "check not built yet", "C10": "check not built yet", "C11": "check not built yet",
    "C13": "check not built yet", "C14": "check not built yet", "C16": "check not built yet", "C20": "check not built yet",
}
