"""Per-property configuration: which contract groups/units decide it, what stays assumed."""

COMMON_TRUSTED = [
    "rustc + Kani 0.68 codegen + CBMC 6.11 + CaDiCaL (bit-precise machine arithmetic, no idealisation)",
    "Verus 0.2026.09.13 + Z3 (overflow checked on every machine-integer operation)",
    "splicer: appends #[cfg(kani)] child modules and inserts #[cfg_attr(kani, ..)] lines only",
]

PROPS = {
    "C08": {
        "kani": ["c08_bounds"],
        "verus": [],
        "explanation": "61 ViewBounds impls + range_bounds, each compared with one Python-slice oracle over i128; "
                       "loop-free, full domain of the selector type and every n <= isize::MAX: complete proofs.",
        "assumptions": [
            "axis length n <= isize::MAX (type invariant of Vec/slice backed surfaces; larger n excluded by kani::assume)",
            "oracle py_slice/py_index written from the property statement (NumPy semantics) is the reference",
            "Kani does not prove termination (functions are loop-free)",
        ],
        "trusted_base": COMMON_TRUSTED,
    },
}
