"""Per-property configuration: which contract groups/units decide it, what stays assumed."""

COMMON_TRUSTED = [
    "rustc + Kani 0.68 codegen + CBMC 6.11 + CaDiCaL (bit-precise machine arithmetic, no idealisation)",
    "Verus 0.2026.09.13 + Z3 (overflow checked on every machine-integer operation)",
    "splicer: appends #[cfg(kani)] child modules and inserts #[cfg_attr(kani, ..)] lines only",
]

PROPS = {
    "C08": {
        "kani": ["c08_bounds"],
        "verus": [],
        "explanation": "61 ViewBounds impls + range_bounds, each compared with one Python-slice oracle over i128; "
                       "loop-free, full domain of the selector type and every n <= isize::MAX: complete proofs.",
        "assumptions": [
            "axis length n <= isize::MAX (type invariant of Vec/slice backed surfaces; larger n excluded by kani::assume)",
            "oracle py_slice/py_index written from the property statement (NumPy semantics) is the reference",
            "Kani does not prove termination (functions are loop-free)",
        ],
        "trusted_base": COMMON_TRUSTED,
        "technique": "Kani/CBMC loop-free full-domain harness per impl against a spec oracle (complete proof)",
        "level_text": "Every ViewBounds impl (61) and range_bounds proved equal to a Python-slice oracle over i128 for all "
                      "values of the selector type and all axis lengths <= isize::MAX; includes absence of overflow/panic. "
                      "Loop-free symbolic execution over the full input domain is a complete proof.",
        "level_note": "Trusts rustc/Kani/CBMC; n <= isize::MAX assumed; the oracle is transcribed from the statement.",
    },
}

PROPS["C16"] = {
    "kani": [],
    "verus": ["ioqueue"],
    "explanation": "IOQueue under a representation invariant (shape of offset + running length) and an abstract view "
                   "bytes() = flatten(chunks).skip(offset); every public operation and the Write/Read/BufRead methods "
                   "(extracted verbatim from src/common.rs on each run) proved against it for queues, chunks and payloads of any size. "
                   "Because each operation is proved assuming only wf(), every interleaving of operations follows by induction.",
    "assumptions": [
        "tty side (UnixTerminal::poll select loop, rustix write, tee file, guard_io) is outside the contracts: it is assumed to call "
        "consume_with with a closure that returns k <= slice.len() (the write(2) contract) and to append only through IOQueue::write",
        "`frame = flush-delimited chunk` is a convention of run_render; clear_but_last is proved to keep exactly the first chunk "
        "(the one whose transmission may have started) and the read offset",
        "IOQueue::write precondition: length + buf.len() <= usize::MAX (physical memory bound)",
        "std specifications assumed: VecDeque::{is_empty,front,back_mut}, <Vec<u8> as io::Write>::write, VecDeque::drain(1..) as 'keep first', std::cmp::min",
        "Verus gives no counterexample and the VecDeque<Vec<u8>> queue is intractable for CBMC (2 probes > 6 min): failed obligations are reported with no-failing-input-found",
    ],
    "trusted_base": COMMON_TRUSTED,
    "technique": "Verus: representation invariant + abstract byte-sequence view on the extracted IOQueue methods (unbounded)",
    "level_text": "Deductive proof (Verus/Z3) of len() == |bytes()|, write appends, consume/consume_with/read drop exactly the first k bytes, "
                  "flush keeps bytes, clear_but_last keeps exactly the first chunk, for all queue states and all operation histories (by the invariant). "
                  "The tty write loop in unix.rs is assumed, not proved.",
    "level_note": "Trusts Verus/Z3, the listed std specifications and the extractor's logged normalisations; unix.rs poll loop, OS and frame convention assumed.",
}

PROPS["C06"] = {
    "kani": ["c06_face", "dec_sgr"],
    "verus": [],
    "explanation": "",
    "assumptions": [],
    "trusted_base": COMMON_TRUSTED,
    "technique": "Kani/CBMC loop-free full-domain harnesses against a set-algebra view and an SGR reference semantics",
    "level_text": "",
    "level_note": "",
}

PROPS["C04"] = {
    "kani": ["dec_tables", "dec_payload", "dec_matchers"],
    "verus": ["numdec"],
    "explanation": "",
    "assumptions": [],
    "trusted_base": COMMON_TRUSTED,
    "technique": "Kani/CBMC harnesses on payload decoders with number_decode replaced by its contract; Verus on number_decode",
    "level_text": "",
    "level_note": "",
}
PROPS["C02"] = {
    "kani": ["dec_payload", "dec_matchers"],
    "verus": ["numdec"],
    "explanation": "",
    "assumptions": [],
    "trusted_base": COMMON_TRUSTED,
    "technique": "Verus contracts on number_decode/utf8_decode; Kani/CBMC harnesses on payload decoders",
    "level_text": "",
    "level_note": "",
}

PROPS["C14"] = {
    "kani": ["c14_base64", "c14_enc_table"],
    "verus": ["base64enc"],
    "explanation": "",
    "assumptions": [],
    "trusted_base": COMMON_TRUSTED,
    "technique": "Verus contracts on the streaming encoder (carry-buffer algebra, unbounded); Kani/CBMC complete harnesses for tables and quantum round trip; bounded Kani twin for the decoder",
    "level_text": "",
    "level_note": "",
}

PROPS["C07"] = {
    "kani": ["c07_twin", "c08_bounds"],
    "verus": ["surface"],
    "explanation": "",
    "assumptions": [],
    "trusted_base": COMMON_TRUSTED,
    "technique": "Verus: ghost window model (root matrix, origin, extent, transposed flag) as representation invariant on the extracted Shape/Surface/SurfaceMut code (unbounded)",
    "level_text": "",
    "level_note": "",
}

PROPS["C05"] = {
    "kani": ["c05_encoder"],
    "verus": [],
    "explanation": "",
    "assumptions": [],
    "trusted_base": COMMON_TRUSTED,
    "technique": "Kani/CBMC full-domain harnesses on TTYEncoder::encode (panic freedom, literal sequences, SGR code selection); decimal rendering by core::fmt assumed",
    "level_text": "",
    "level_note": "",
}

NOT_APPLICABLE = {
    "C01": "monolithic TerminalRenderer::frame over trait objects/HashMap/Arc; the property needs a terminal screen model as ghost state over whole histories; no callee carries it",
    "C03": "relational over read schedules of a run-time-built DFA + SmallVec + boxed matchers; tokeniser half quantifies over NFA::compile; outside Verus and intractable for CBMC",
    "C12": "single function mixing f32 quantisation, HashMap iteration order, LRU and core::fmt; property defined through a sixel interpreter; nothing smaller carries a contract",
    "C15": "soundness of Thompson/power-set construction over BTreeMap/BTreeSet/Rc; no specs in Verus, intractable in CBMC",
    "C17": "threads, signals, select, termios, Drop ordering - no concurrency/OS model in either verifier",
    "C18": "recursive BTreeMap trie via entry/closure APIs over all histories; str parsers - outside both verifiers",
    "C19": "serde visitors / serde_json / str formatting and parsing - outside both verifiers",
    # claimed later as their checks are built; until then honestly not claimed
    "C02": "check not built yet", "C04": "check not built yet", "C05": "check not built yet", "C06": "check not built yet",
    "C07": "check not built yet", "C09": "check not built yet", "C10": "check not built yet", "C11": "check not built yet",
    "C13": "check not built yet", "C14": "check not built yet", "C20": "check not built yet",
}
