"""Per-property configuration: which contract groups/units decide it, what stays assumed."""

COMMON_TRUSTED = [
    "rustc + Kani 0.68 codegen + CBMC 6.11 + CaDiCaL (bit-precise machine arithmetic incl. f32, no idealisation)",
    "Verus 0.2026.09.13 + Z3 (overflow checked on every machine-integer operation)",
    "Kani splicer: appends #[cfg(kani)] child modules and inserts #[cfg_attr(kani, ..)] lines into a scratch copy only",
    "Verus extractor: items pulled by name from /repo on every run; every textual change is a logged normalisation (evidence.coverage.normalisations)",
]

PROPS = {}

PROPS["C02"] = {
    "kani": ["dec_payload", "dec_matchers"],
    "verus": ["numdec", "utf8stream"],
    "technique": "Verus contracts on number_decode / utf8_decode (unbounded); Kani/CBMC harnesses on the payload decoders with number_decode replaced by its proved contract",
    "level_text": "Proved (Verus, all inputs): number_decode returns the saturated decimal value of every digit string of any length and None otherwise, without overflow; "
                  "utf8_decode on every automaton-shaped sequence returns exactly the encoded scalar value or U+FFFD, never an invalid char. "
                  "Proved (Verus, unit utf8stream, any byte stream): the standalone Utf8Decoder::decode never indexes its 4-byte buffer out of range and returns, for every input, exactly what the byte-wise fold over the "
                  "automaton's transition function prescribes (character, error or 'need more'), consuming exactly the bytes up to that point - for every automaton that accepts within four bytes. "
                  "Proved (Kani, all usize): keyboard_decode_key, sgr_color. Payload decoders (mouse, cursor report, DECRPM, size, kitty keyboard/image; paste in the thorough tier) are checked for every "
                  "numeric value on fixed sequence templates (bounded stand-ins, listed under bounded_checks, not counted as proved). "
                  "The DFA walk, rescheduling, raw-event framing, termination and the tty read loop are NOT decided.",
    "level_note": "Assumed: MatcherDecoder::{decode,decode_byte,take_candidate}, the compiled automata (incl. that utf8_nfa accepts only utf8_shape strings), unix.rs read loop, TermCap/OSC/paste decoders (String/BTreeMap heavy), std specs listed in trusted_base.",
    "assumptions": [
        "the byte-at-a-time DFA walk (MatcherDecoder) and NFA compilation are outside both verifiers: totality/termination of the walk, 'None when exhausted' and raw events being non-empty in-order slices are assumed, not decided",
        "utf8_shape (first-byte class + 10xxxxxx tails) is what utf8_nfa accepts: assumed",
        "unit utf8stream: the compiled UTF8DFA is an abstract DFA (uninterpreted start/transition/accepting) whose states are layered by bytes read and whose incomplete sequences have at most three bytes (axiom_dfa_depth, assumed); "
        "the BufRead source is io::Cursor<&[u8]> specified by its contract (fill_buf lends all remaining bytes without changing the cursor, consume(n) advances)",
        "DECRPSS (ReportSettingMatcher) harnesses need normalisation K1: tracing log statements removed from src/decoder.rs in the scratch copy (kani-compiler 0.68 crashes on tracing's callsite code)",
        "payload decoder harnesses replace number_decode by a stub justified by its Verus contract; each covers one sequence template (bounded in shape, complete in numeric values)",
        "TermCapMatcher, DeviceAttrsMatcher (BTreeMap/BTreeSet), OSControlMatcher and parse_color (str parsing: harnesses were built and withdrawn, CBMC does not finish): not under contract",
    ],
}

PROPS["C04"] = {
    "kani": ["dec_tables", "dec_payload", "dec_matchers"],
    "verus": ["numdec", "osccolor"],
    "technique": "Kani/CBMC full-domain harnesses on numeric tables and colour forms; Verus round-trip lemmas (decimal, UTF-8); payload decoders on templates with number_decode replaced by its contract",
    "level_text": "Proved: DecMode/DecModeStatus::from_usize invert `as usize` on every variant and reject everything else (all usize); sgr_color maps 5;n to the xterm-256 colour n and 2;r;g;b / 2:cs:r:g:b to "
                  "exactly (r,g,b) for every value (Kani, complete); number_decode(decimal(n)) == n for every usize and utf8_value(utf8_enc(c)) == c for every scalar value (Verus lemmas over the proved contracts). "
                  "Payload decoders return exactly the transmitted coordinates/modifiers/levels/ids for every numeric value on fixed templates (bounded stand-ins). "
                  "Proved (Verus, unit osccolor): parse_color's parse_component maps an n-digit hex component (n = 1..4) to the most significant byte of the value scaled to 16 bits (4 digits: high byte, 3: v/16, 2: v, 1: v*17), "
                  "rejects other lengths, never overflows; lemma_roundtrip: a channel c reported as c*257 in four digits, or as two digits, decodes back to c. "
                  "Tokenisation, tag ordering, the static key table and concatenation are NOT decided.",
    "level_note": "Assumed: merged DFA + tag ordering, basic_events_nfa key table, that core::fmt prints usize in decimal (digits() spec), OSC colour / termcap / paste decoders.",
    "assumptions": [
        "one NFA per family merged into one tagged DFA, tag ordering, the static xterm/fixterms key table and non-interference of concatenated sequences: assumed (C03/C15 not applicable)",
        "button/key names are compared with the library's own naming table, as the property says",
        "decimal rendering spec digits(n) stands for what a terminal transmits",
        "unit osccolor: usize::from_str_radix(_, 16) and str::len are std calls behind external_body wrappers (an n-character string parses to a value below 16^n); the `rgb:` prefix / split('/') framing of parse_color is not under contract",
    ],
}

PROPS["C05"] = {
    "kani": ["c05_encoder", "c05_fmtrec"],
    "verus": [],
    "technique": "Kani/CBMC full-domain harnesses on TTYEncoder::encode per command variant (panic freedom, literal sequences, SGR code selection; formatted commands through the write! recorder K2: format literal + integer arguments); core::fmt rendering assumed",
    "level_text": "Proved (Kani, every parameter value and capability setting): encode never panics or overflows for CursorTo/CursorMove/Scroll/ScrollRegion/EraseChars/DecModeSet/DecModeGet/KeyboardLevel/Color query; "
                  "parameterless commands emit exactly their ECMA-48/xterm bytes; a FaceModify that selects nothing representable emits nothing. "
                  "Alt-screen keyboard-level bracketing (complete, kitty_level replaced by a recording stub): entering the alternate screen emits the switch and THEN sets the level, leaving resets the level to 0 and THEN switches - "
                  "the main screen's own level is never touched; other modes and terminals without the kitty keyboard emit the switch only. "
                  "Face / FaceModify with colours (complete in the colour values and depth): reset first, then foreground, background (and underline colour) each handed to the colour encoder in its own role, in that order, at the terminal's depth. Face / FaceModify without colours emit one well-formed SGR sequence selecting exactly the requested attributes "
                  "(0 first for Face; 1/22, 3/23, 5/25, 9/29, 4, 4:n, 24) on 20 fixed attribute sets (bounded stand-ins: the harness over all 6 x 32 sets does not finish in CBMC). Formatted commands (Kani complete, normalisation K2 = every write! also records its format literal and integer arguments): CursorTo is CUP with row+1 first and col+1 second, DecModeSet/DecModeGet are DECSET/DECRST/DECRQM with the xterm number of every mode and h exactly when enabling, CursorMove is CUF/CUB then CUD/CUU with the magnitude, Scroll is SU/SD, EraseChars ECH, ScrollRegion DECSTBM or its reset form, KeyboardLevel the kitty sequence only with that protocol. That core::fmt copies the literal and prints integers in decimal, Title/Termcap/Raw/Char strings and the colour query are NOT decided.",
    "level_note": "Assumed: core::fmt (rendering of a write! template with integer arguments) - formatted commands are compared as (format literal, integer arguments) records (normalisation K2), literal commands byte for byte.",
    "assumptions": [
        "core::fmt is intractable for CBMC (probes: > 7 min, > 10 GB symbolic; no verdict in 10 min with all-concrete arguments; no verdict in 15 min with Display::fmt of usize stubbed): so formatted output is observed one step earlier, as the (format literal, integer arguments) handed to write! (normalisation K2: arguments evaluated twice, the real write! unchanged); that core::fmt renders this pair as literal parts + decimal digits is assumed",
        "Face/FaceModify with colours: which colour goes to which SGR role, in which order and at which depth is checked (color_sgr_encode replaced by a recorder); color_sgr_encode's own output (38/48/58, 2|5, digits) is not - "
        "io::Write::write_fmt is a trait default method, which Kani cannot stub; Title, Termcap, Raw, Char, Image are not under contract",
        "oracle byte sequences are transcribed from ECMA-48 / xterm ctlseqs / VT510",
    ],
}

PROPS["C06"] = {
    "kani": ["c06_face", "dec_sgr", "dec_payload", "c05_encoder"],
    "verus": ["ttywriter"],
    "technique": "Kani/CBMC full-domain harnesses: attribute set algebra, FaceModify::apply against SGR semantics, sgr_color; sgr_face against a reference SGR interpreter on parameter templates (bounded); Verus contract with ghost logs on the escape-sequence cell writer's forwarding loop",
    "level_text": "Proved (Kani, complete): FaceAttrs pack/unpack/insert/remove/contains and all six bit operators agree with the (underline style, 5 flags) view for all pairs; "
                  "FaceModify::apply(m, f) sets/clears every colour and attribute independently and reset restores the default face for every m x f; sgr_color decodes every colour form and consumes exactly its own parameters; "
                  "sgr_face equals a reference SGR interpreter (later overrides earlier, 0/empty resets, colon forms, unknown codes ignored) for every numeric value on "
                  "~45 parameter templates (bounded stand-ins); FaceModify without colours is encoded with exactly the standard codes on fixed cases (bounded stand-ins); Face / FaceModify colours go to the colour encoder each in its own role and order (complete in the colour values). "
                  "Proved (Verus, unit ttywriter, any byte string and any escape-sequence decoder that makes progress): TTYCellWriter::write forwards every decoded command in order - characters are put with the face current at that moment, "
                  "every SGR change is applied ON TOP of the parent's current face (FaceModify::apply) and becomes the current face, images are put as they are, all other commands are ignored; the loop terminates. "
                  "Encoder->decoder round trip of colours passes through core::fmt and the DFA: NOT decided end to end.",
    "level_note": "Assumed: TTYCommandDecoder (DFA; in unit ttywriter any decoder with a ghost log of what it decoded), TerminalCommand reduced to its three drawing variants plus a catch-all there (N18), core::fmt rendering of colour components; SGR codes FaceModify cannot express (7/27, 39/49/59, 2/8) and the ambiguous 21 are outside the compared domain.",
    "assumptions": [
        "reference SGR interpreter transcribed from ECMA-48/xterm/kitty; inputs it marks undefined (codes FaceModify cannot express, 21, malformed colour forms) are not compared",
        "semicolon-form extended colours inside sgr_face are not run through CBMC (15 min timeouts); their content is covered on sgr_color directly",
        "escape-sequence cell writer and chunking of written bytes rest on the DFA decoder: assumed",
    ],
}

PROPS["C07"] = {
    "kani": ["c07_twin", "c08_bounds"],
    "verus": ["surface"],
    "technique": "Verus: ghost window model (root matrix, origin, extent, transposed flag) as representation invariant on the extracted Shape/Surface/SurfaceMut/iterator code (unbounded); Kani for the ViewBounds contract of every impl and a bounded twin",
    "level_text": "Proved (Verus, all sizes and all chains by induction on the invariant): Shape::from/view keep `rep` (the shape denotes the sub-window the bounds select; empty on absent bounds); transpose flips the window; "
                  "offset of every in-window position is the root cell the model says, lies inside the buffer and is injective; nth/iteration is row-major with exactly h*w items, for every n (the index saturates), and position() names the element yielded next ((height, 0) once exhausted); get/is_empty/view/view_owned/as_ref/iter "
                  "(trait defaults, verified in place); fill/fill_with/clear/set write only offsets of window cells (frame); get_mut lends out exactly the cell of an in-window position (whatever is written through it is the only change) and None outside; "
                  "to_owned_surf reads in-window cells only and yields an owned surface of the window's size; view_mut/as_mut/iter_mut hand the same window on; SurfaceMutIter::nth's raw-pointer access is in bounds and never repeats an offset; "
                  "SurfaceOwned::new_with builds a surface that satisfies the invariant (base case) and the real shape()/data()/data_mut() of SurfaceOwned, SurfaceView and SurfaceMutView discharge the trait contract, so the defaults apply to them. "
                  "The ViewBounds trait contract assumed there is proved for all 61 impls (Kani, complete). insert/map and forwarding impls only through the bounded twin.",
    "level_note": "Assumed: the raw pointer dereference itself, &/&mut/Arc/Box forwarding impls, Clone/Default of items, hash; buffer length <= isize::MAX.",
    "assumptions": [
        "surfaces are built from SurfaceOwned/Shape::from and view/transpose (SurfaceView::new with an arbitrary Shape is outside the domain)",
        "slice length <= isize::MAX (Rust allocation invariant)",
        "SurfaceMut::insert (iterator zip), Surface::map (its closure captures the caller's `mut f`: unsupported), Surface::hash; which value fill_with stores where (FnMut ensures cannot be accumulated across calls in Verus: only its frame is proved), `impl SurfaceMut for SurfaceMutView`, SurfaceOwnedView and the &/&mut/Arc/Box forwarding impls: not under Verus contract; the bounded Kani twin (3x4 surface, incl. depth-2 chains in the thorough tier) exercises insert/iter/get through nested and transposed views",
    ],
}

PROPS["C08"] = {
    "kani": ["c08_bounds"],
    "verus": [],
    "technique": "Kani/CBMC loop-free full-domain harness per impl against a spec oracle (complete proof)",
    "level_text": "Every ViewBounds impl (61) and range_bounds proved equal to a Python-slice oracle over i128 for all values of the selector type and all axis lengths <= isize::MAX; "
                  "includes 0 <= start < end <= n and absence of overflow/panic. Loop-free symbolic execution over the full input domain is a complete proof.",
    "level_note": "Trusts rustc/Kani/CBMC; n <= isize::MAX assumed; the oracle is transcribed from the statement.",
    "assumptions": [
        "axis length n <= isize::MAX (type invariant of Vec/slice backed surfaces)",
        "oracle py_slice/py_index written from the property statement (NumPy semantics) is the reference",
        "Kani does not prove termination (the functions are loop-free)",
    ],
}

PROPS["C10"] = {
    "kani": ["c10_layout", "c10_flex", "c10_container"],
    "verus": ["surface", "layouttree", "imagecells"],
    "technique": "Kani/CBMC full-domain harnesses on constraint clamp and alignment arithmetic; Verus contracts on Layout::apply_to over the C07 window model and on the layout-tree arena (Tree/TreeMut default methods, TreeIter, FindPath hit-testing) with an arena invariant; the View-tree induction is not mechanised",
    "level_text": "Proved (Kani, all usize): Size::clamp / BoxConstraint::clamp return a size inside every constraint with min <= max (identity inside), loosen/loose/tight as documented; "
                  "Align::align places the (clamped) child inside the space for Start/Center/End/Expand/Shrink and never panics. These are the functions every leaf and container view ends its layout with. "
                  "Proved (Verus, unit surface): Layout::apply_to - the call every view's render starts with - returns a view on the same data whose window is the sub-window rows pos.row..+height, cols pos.col..+width of the "
                  "surface it was given, clipped to it (window model of C07), so whatever a view paints through it stays inside the surface it received and inside the rectangle its layout records. "
                  "Proved (Kani, complete for the one-child Container): Container::layout against a probe child that returns ANY size within the constraint it is handed (the modular View contract) - for every container size, alignment pair, margins and constraint: no panic/overflow, own size within the constraint, child constraint has min <= max. "
                  "flex_layout with zero children, with one non-flex probe child and with one flex probe child (share computed in f64) terminates without panic within the constraint (Kani, bounded stand-ins; two or more children exhaust CBMC's memory). "
                  "Proved (Verus, unit layouttree, any arena size): under the arena invariant tree_wf (every sibling/child link points forward and inside the arena) TreeMut::push allocates the node at the end and links it as the LAST child "
                  "keeping tree_wf and all existing values; pop detaches the FIRST child; child_mut/sibling/children/TreeIter::next walk exactly the child_first/sibling links; TreeMutView::new keeps tree_wf; "
                  "FindPath::next (hit-testing) yields the current layout and descends into the first child, in insertion order, whose recorded rectangle contains the position, with the position re-expressed relative to it - "
                  "no index out of range, no subtraction underflow, and the sibling walk terminates (decreases on the forward links). "
                  "Proved (Verus, unit imagecells): Image::size_cells (with round_up, Size::new, Size::is_empty) returns the ceiling of the pixel size over the cell's pixel size in both dimensions, 0x0 for an empty image or unknown cell size, without division by zero or overflow. "
                  "Flex distribution over several children and flex factors, Frame/ScrollBar/Tag/Dynamic, Text/Image/glyph leaves and actual painting are NOT decided.",
    "level_note": "Partial: clamp/align arithmetic, Layout::apply_to, the layout arena and hit-testing, and the empty/one-child flex are under contract; flex with several children is not.",
    "assumptions": [
        "the modular View contract (children stay within the constraint they are given) is stated in DESIGN.md but not mechanised",
        "the modular View contract (a child returns a size within the constraint it is given) is what the probe child embodies; the induction over tree depth that it justifies is by argument, not mechanised",
        "flex_layout with >= 2 children or flex factors, Text/Image/glyph views, JSON-built trees: outside both verifiers here",
        "layouttree: SmallVec<[TreeNode<T>; 5]> replaced by Vec (N18); Layout's type-erased payload opaque; "
        "Tree::find_path (a constructor) and push_default/value_mut/Deref impls are not extracted; struct fields widened to pub for specification (N20)",
    ],
}

PROPS["C11"] = {
    "kani": ["c11_kitty", "c11_erase"],
    "verus": ["base64enc"],
    "technique": "Kani function contracts (proof_for_contract + stub_verified) on the placement-id functions; modular Kani harness on KittyImageHandler::erase with the id functions replaced by recorders; Verus on the payload encoder",
    "level_text": "Proved (Kani contracts, all positions below 65536): kitty_placement_id == row + col*65536 <= 2^32-1, kitty_placement_to_pos inverts it, ids are injective - so erase(img, pos) addresses exactly the "
                  "placement draw(img, pos) creates (both call the same function on the same position). "
                  "Proved (Kani, every position; id functions replaced by recorders): erase(img, Some(pos)) emits exactly one command, `a=d,d=i,i=<image id>,p=<placement id>` (format literal and arguments recorded, K2), built from the image id of that image and the placement id of exactly that position; erase(img, None) emits `a=d,d=i,i=<image id>` and addresses the image only. Payload = base64 of row-major RGBA rests on C07 (iteration order) + C14 (encoder). "
                  "Proved (Verus, unit base64enc): the payload encoder emits exactly b64(bytes) for any write partition, its length is 4*ceil(n/3) (a multiple of four), and cutting such a payload into 4096-byte pieces gives pieces that are multiples of four with only the last one shorter (lemma_chunks_4096) - the arithmetic the chunk loop relies on. "
                  "That draw() runs exactly that loop with m = (index + 1 < count), the transmit-once HashMap cache, re-transmission on error and the control strings (core::fmt, dyn Write) are NOT decided.",
    "level_note": "Partial: identifiers and erase's addressing. KittyImageHandler::draw/handle bodies are assumed (HashMap cache: hashbrown's SIMD probing does not finish in CBMC).",
    "assumptions": [
        "draw derives the placement id by calling kitty_placement_id(pos) (read from the source); for erase this is checked",
        "erase harness: tracing log statements removed (K1), the OS-seeded hashing keys of the (unused) cache fixed; the bytes of the command go through core::fmt",
        "kitty_image_id = hash % (2^32-1) may be 0, which the protocol reserves: observation, not checked",
        "chunk loop, HashMap cache, re-transmission on error: not under contract",
    ],
}

PROPS["C13"] = {
    "kani": ["c13_octree", "c13_quantize"],
    "verus": ["kdtree", "octleaf", "octprune"],
    "technique": "Verus: recursive contracts on k-d tree construction (build_rec establishes the k-d invariant over exactly the palette entries) and on the branch-and-bound search, composed through ColorPalette::{new,find} into exact nearest-colour lookup for every palette and query (unbounded); Kani/CBMC full-domain harnesses on octree path/summary/error arithmetic; Verus on leaf accumulation",
    "level_text": "Proved (Verus, every palette length incl. duplicates and clustered values, every query colour): KDTree::new's build_rec appends |colors| nodes, leaves earlier nodes untouched, and the subtree rooted at the last node "
                  "satisfies the k-d invariant (children precede parents; every node of the left subtree <= the split value <= every node of the right subtree in the node's dimension) and holds exactly the (index, rgb) entries of the slice; "
                  "find_rec returns a node of the subtree whose squared RGB distance is <= that of every node of the subtree; dist is the squared Euclidean distance without overflow; "
                  "composed: ColorPalette::new(colors) is None iff colors is empty, otherwise a palette p with p.colors == colors, and p.find(q) returns (i, c) with i < |colors|, c's rgb == colors[i]'s rgb, alpha 255, and "
                  "d2(q, colors[i]) <= d2(q, colors[k]) for every k. Proved (Kani, complete): OcTreePath yields the 8 MSB-first child indices; "
                  "OcTreeInfo::join is a commutative monoid; ColorError::add clamps to 0..=255. Proved (Verus): leaf accumulation keeps acc <= 255*count without overflow and to_rgba is the per-channel floor of the mean, always a byte. "
                  "Image::quantize's pixel loop (Kani, bounded stand-ins on 1x2 / 2x1 / 1x1 images with symbolic pixels; palette construction stubbed by a fixed two-colour palette, ColorPalette::find replaced by its Verus-proved contract, alpha compositing by a marker): "
                  "no panic (the two error rows are indexed in range for wide and tall images), an index image of the image's size, one lookup per pixel in row-major order whose answer is what is stored, entries < palette size, "
                  "the colour looked up is the pixel composited over the background (compositing happens before the diffused error is added), colours that are in the palette are reproduced exactly with and without dithering. "
                  "Proved (Verus, unit octprune): OcTree::prune_until(n) returns with the leaf summary <= max(n, 8) and leaves a tree that already fits completely untouched (the tree-level half of losslessness). "
                  "That the leaf summary equals the real number of leaves (insert/prune/build_palette), sampling and dithering order are NOT decided.",
    "level_note": "Assumed: slice::sort_by_key sorts by the key and permutes (its std contract, N8); the iterator chain iter().map(to_rgb).enumerate().collect() yields (k, colors[k].rgb) (N8); rasterize::RGBA as an opaque stand-in (N18). Not under contract: OcTree::{insert,prune_until,build_palette}, ColorPalette::from_image, Image::quantize loops.",
    "assumptions": [
        "slice::sort_by_key: result ordered by the key and a rearrangement of the input (external_body wrapper sort_colors_by_dim)",
        "colors.iter().map(|c| c.to_rgb()).enumerate().collect() == [(k, colors[k].to_rgb())] (external_body wrapper enumerate_rgb)",
        "i32::pow(2) on channel differences specified as x*x; rasterize::RGBA replaced by an opaque stand-in with the contract of new/to_rgb (N18)",
        "OcTree::prune_until: termination of the pruning loop is not verified (exec_allows_no_decreases_clause); OcTree::prune itself carries no contract and none is assumed",
        "OcTreeLeaf::to_rgba is called on leaves with color_count > 0 (precondition; leaves in the tree are created by from_rgba)",
        "quantize harnesses: #[tracing::instrument] attributes / tracing log statements are removed from src/image.rs in the scratch copy (normalisation K1: logging only; kani-compiler 0.68 crashes on code reached from tracing's callsite registration)",
        "palette bounds (1..=max(requested,8)) beyond prune_until's own guarantee, sampling rule, Floyd-Steinberg weights and images larger than two pixels: not under contract",
    ],
}

PROPS["C14"] = {
    "kani": ["c14_base64", "c14_enc_table"],
    "verus": ["base64enc", "base64dec", "base64rt"],
    "technique": "Verus contracts on the streaming encoder (carry-buffer algebra, unbounded, chunk independence as lemmas); Kani/CBMC complete harnesses for both tables and the 4-char quantum round trip; Verus contracts on the streaming decoder against a reader specified by the io::Read contract",
    "level_text": "Proved (Verus, any data, any partition into writes): Base64Encoder::write appends full(carry+buf) and keeps rem(carry+buf) as carry, finish appends the padded tail; with lemma_full_concat/lemma_two_writes the output "
                  "of any write sequence is b64(concatenation) per RFC 4648. Proved (Kani, complete): BASE64_ENCODE is the RFC alphabet, BASE64_DECODE its inverse, decode_u8x4(enc3(a,b,c)) == [a,b,c] for all 2^24 groups, "
                  "padded quanta give 1/2 bytes, decode_* total on arbitrary bytes. "
                  "Proved (Verus, unit base64dec; any reader obeying the io::Read contract - any short-read schedule, any error point - and any destination size): Base64Decoder::read delivers exactly the next n bytes of "
                  "pending + dec_text(text) in order, a short count happens only at end of stream after whole quanta were consumed, and an error is either the reader's or a text length that is not a multiple of four "
                  "(tolerated as well: non-base64 characters); no index or arithmetic failure on arbitrary bytes. "
                  "Proved (Verus, unit base64rt, over the same two specifications): dec_text(b64(s)) == s for every byte string s - so encoding under any write partition followed by decoding under any read schedule returns the original bytes.",
    "level_note": "Assumed: <Vec<u8> as Write>::write_all appends; sink W := Vec<u8>, source R := AnyReader (the io::Read contract as a specification); table lookups specified and discharged by Kani; dec4 == inverse of enc3 is the Kani quantum harness.",
    "assumptions": [
        "encoder sink: Vec<u8> (N6); other io::Write sinks may fail, which the contract does not model",
        "decoder source: AnyReader, an external_body reader specified by the io::Read contract (0 only at EOF/empty buffer, short reads allowed, may fail unless `reliable`)",
        "the specification text (alphabet, enc3, b64, dec_val, dec4, dec_text) is shared by textual inclusion between the units that verify the real code and the round-trip unit; the two constant tables are tied to it by the Kani table harnesses",
        "table lookups are routed through b64_enc_lookup whose specification is discharged by the Kani harness c14_encode_table",
    ],
}

PROPS["C16"] = {
    "kani": [],
    "verus": ["ioqueue"],
    "technique": "Verus: representation invariant + abstract byte-sequence view on the extracted IOQueue methods (unbounded)",
    "level_text": "Deductive proof (Verus/Z3) of len() == |bytes()|, write appends, consume/consume_with/read drop exactly the first k bytes, "
                  "the frame structure (frame = flush-delimited chunk): write never starts a new chunk (it only creates the very first one) and leaves every chunk but the last untouched; flush keeps bytes and existing chunks and opens at most one empty chunk after them; "
                  "consume/consume_with remove the front chunk exactly when its rest is consumed completely (an empty front chunk cannot block the ones behind it) and keep it otherwise; "
                  "clear_but_last keeps a prefix of the chunk list that still contains the front chunk (nothing of a chunk in flight is dropped) with len() recomputed, for all queue states and all operation histories (by the invariant). "
                  "The tty write loop in unix.rs is assumed, not proved.",
    "level_note": "Trusts Verus/Z3, the listed std specifications and the extractor's logged normalisations; unix.rs poll loop, OS and frame convention assumed.",
    "assumptions": [
        "tty side (UnixTerminal::poll select loop, rustix write, tee file, guard_io) is outside the contracts: it is assumed to call "
        "consume_with with a closure that returns k <= slice.len() (the write(2) contract) and to append only through IOQueue::write",
        "`frame = flush-delimited chunk` is a convention of run_render; clear_but_last is proved to keep the first chunk "
        "(the one whose transmission may have started) and the read offset",
        "IOQueue::write precondition: length + buf.len() <= usize::MAX (physical memory bound)",
        "Verus gives no counterexample and the VecDeque<Vec<u8>> queue is intractable for CBMC (2 probes > 6 min): failed obligations are reported with no-failing-input-found",
    ],
}

PROPS["C20"] = {
    "kani": ["c20_colors", "c05_fmtrec"],
    "verus": ["c20sep"],
    "technique": "Kani/CBMC full-domain (bit-precise f32) harnesses on the table search; modular Kani harness on color_sgr_encode's 256-colour arm (nearest / distance by recording stubs, emitted number through the write! recorder K2)",
    "level_text": "Proved (Kani, every non-NaN f32): nearest(v, CUBE), nearest(v, GREYS) and nearest(v, [0,.33,.66,1]) return an arg-min of |v - table[j]| in f32 arithmetic; the tables are strictly increasing and every entry is the linear-light value of the xterm level it stands for (0,95,..,255; 8+10k) to within 1e-6 "
                  "(expected values transcribed from the sRGB transfer function evaluated in double precision); "
                  "the grey level is monotone in the luminance. That per-channel nearest + nearest-to-mean + the final distance comparison give the global optimum over the 240 entries (separability), "
                  "Proved (Kani, every colour in [0,1]^3, all roles; nearest and LinColor::distance replaced by recording stubs with free answers): color_sgr_encode looks the three channels up in the cube table and their mean in the grey table, compares exactly the grey and the cube candidate, and emits 232 + k for the grey answer when it is reported strictly closer, 16 + 36r + 6g + b otherwise (thorough: the same with the real nearest); at true-colour depth exactly r, g, b follow 38|48|58;2 unchanged; at grey depth level k of the 4-level lookup is emitted as 30/90/37/97 (+10 background, nothing for underline). The sRGB->linear conversion, Color::luma and LinColor::distance (SIMD) themselves are NOT decided.",
    "level_note": "Partial: selection primitive, tables and the index arithmetic of the 256-colour arm. rasterize's conversion and metric (powf, SSE dpps) are assumed.",
    "assumptions": [
        "the 30 expected table values were computed outside the verifier (powf) and transcribed into the harness; that rasterize's LinColor::from implements the same sRGB transfer function is assumed",
        "LinColor::distance is Euclidean in linear RGB and srgb->linear is monotone: assumed contracts of the rasterize dependency",
        "the separability lemmas idealise f32 as exact arithmetic (near-ties within one ulp are not decided) ; the body of color_sgr_encode is linked through c20_eightbit_index_modular (which candidate wins is whatever LinColor::distance reports)",
    ],
}

PROPS["C09"] = {
    "kani": ["c09_text", "c09_cellsize", "c09_fakeglyph"],
    "verus": ["celllayout", "putcell", "utf8stream", "textlayout", "ttywriter", "imagecells"],
    "technique": "Verus contracts on the single layout routine Cell::layout, on TerminalWriter::put_cell over the ghost window model of surfaces shared with C07 (frame condition), and on the streaming Utf8Decoder::decode against a byte-wise fold with chunk-independence lemmas; all extracted from the real code",
    "level_text": "Proved (Verus, every cell size, width, wrap mode, cursor and tracked size): Cell::layout keeps the writer invariant cursor.col <= max_width and size.width <= max_width, the tracked size is a "
                  "monotonically growing bounding box that covers every placed cell, a cell is placed at the cursor when it fits, else (wrapping only) at column 0 of the next row (r == place(..)), and nothing is placed exactly for "
                  "newline / CR / tab, zero-sized cells and overflow with wrapping disabled; newline, CR and tab move the cursor as specified; no arithmetic overflow for screen-sized numbers. "
                  "Proved (Verus, unit putcell; every window - plain, offset, strided, transposed - of every canvas, every writer state satisfying the invariant): TerminalWriter::put_cell changes no cell outside the window of the surface "
                  "it was given (frame), writes a positioned cell exactly at place(..) with the cell's kind (its face is the library's styling rule, left open), changing no other cell; returns false exactly when the position is not in the window; a cell without a "
                  "position never fails and never changes any cell's content (only faces of skipped cells); the fill loop indexes the buffer in range; 'out of space' is permanent (a put fails only once the cursor has left the window "
                  "downwards, the cursor row never decreases, and from such a state no put changes any cell), which is what makes dropping the rest of a buffer after a failed put independent of the split. "
                  "Proved (Verus, unit putcell, any byte string incl. partial and invalid UTF-8): <TerminalWriter as io::Write>::write - the loop that joins the streaming decoder and put_char, extracted with CellWrite::put_char and Cell::new_char - "
                  "changes no buffer element outside the window of the surface the writer was created on, keeps the writer invariant and the decoder well-formed for the next write, terminates (every produced character costs a byte) and reports at most buf.len() bytes. "
                  "Proved (Verus, unit utf8stream): Utf8Decoder::decode equals the byte-wise fold `run`; lemma_run_concat_more / lemma_run_concat_out: a chunk that produced nothing leaves a state from which the next chunk continues "
                  "exactly as if both had been one buffer, and what a chunk produced does not depend on the bytes after it - cuts inside a UTF-8 character do not change the characters delivered. "
                  "Proved (Verus, unit textlayout, every cell sequence and width >= 1): over the functional model `lay` of Cell::layout - tied to the real body by the /*sync*/ postcondition - "
                  "theorem_agree: folding the cells with any available width between the measured width W and the constraint width (in particular a surface exactly W wide) goes through the same states and puts every cell at the same position as measuring did; "
                  "theorem_in_box: every cell that gets a position lies inside the measured size. Together with put_cell's contract: rendering into a surface of the size the layout reported places every positioned cell, none outside. "
                  "Text::layout / Text::render (Kani, bounded stand-ins on a two-cell text; Cell::layout resp. TerminalWriter::put_cell - both under Verus contract - replaced by recorders): layout calls Cell::layout once per cell, in order, "
                  "with the constraint's maximum width and the text's own wrap flag and reports the measured size clamped to the constraint; render writes every cell once, in order, through a writer carrying the same wrap flag. "
                  "Cell::size (Kani): every character cell is one row high and at most three columns wide (complete); a glyph written as its fallback text measures the sum of the display widths of its fallback characters (bounded: one fixed text). "
                  "The glyph fallback path of put_cell, Cell::size for glyphs with glyph support (unicode-width / glyph / image geometry), the generic Utf8CellWriter loop, the escape-sequence automaton behind TTYCellWriter (its forwarding loop is proved in unit ttywriter for any decoder that makes progress) and "
                  "Text::layout/render agreement ('every printable cell exactly once in reading order') are NOT decided.",
    "level_note": "Cell::size is an uninterpreted function; Face/Image/Glyph/ViewContext/Utf8Decoder-in-writer are opaque stand-ins (N18); the glyph-fallback prelude of put_cell is cut off by precondition (N16); SurfaceMutView operations are used through the contracts proved in unit surface.",
    "assumptions": [
        "Cell::size is uninterpreted in the layout units; of its three arms the image arm (Image::size_cells) is proved in unit imagecells, the character arm is covered for every char by c09_char_cell_size (1 row, <= 3 columns), the glyph-fallback arm on one fixed fallback text (bounded; Glyph::fallback_str stubbed, the glyph itself a placeholder allocation); coordinates are below 2^24 and strides/start below 2^32 (screen-sized), so sums cannot overflow",
        "put_cell: the call does not take the glyph-fallback path (terminal has glyph support or the cell is not a glyph): precondition; that path recurses through a closure over str::chars and is outside the dialect",
        "put_cell: SurfaceMutView::{shape,size,get_mut,data_mut} are specified by the contracts that unit surface proves for the Surface/SurfaceMut default methods (get_mut added there); the forwarding impls for SurfaceMutView are trusted",
        "derived PartialEq on Position (`cursor_start != self.cursor`) has no specification in Verus: both outcomes are covered",
        "utf8stream: UTF8DFA is an abstract DFA with the layering/length axiom; source is io::Cursor<&[u8]> by contract; utf8_decode is 'a function of the bytes' here (its own contract is proved in unit numdec)",
        "write: characters are at most one row high (char_cell_small, stated about the uninterpreted Cell::size; discharged for the real Cell::size by the complete Kani harness c09_char_cell_size: 1 row, <= 3 columns for every char) and cursor.row + buf.len() stays below 2^24; the io::Cursor is the ByteCursor stand-in (N6); "
        "that the cells written by two writes equal those of one write of the concatenation is NOT mechanised end to end (it follows from decode == run + the concat lemmas + permanence of 'out of space' by reading)",
        "Utf8CellWriter::write / TTYCellWriter::write loops, TerminalWritable, Text::{layout,render}: not under contract "
        "(a Kani harness for put_cell was built and withdrawn: overwriting a Cell runs the drop glue of CellKind, whose discriminant lives in the niche of `char`; CBMC unrolls the recursive drop of rasterize::Scene without end)",
        "textlayout: Text::layout / Text::render are not extracted into Verus (for_each closures); that they ARE the folds `run` with ct.max.width resp. the surface width is checked by the bounded Kani harnesses c09_text_* on a two-cell text only; "
        "if a change breaks only the /*sync*/ clause the agreement theorems no longer speak about the code and the check answers undecided (exit 2)",
        "writer invariant cursor.col <= max_width, size.width <= max_width holds initially (TerminalWriter::new starts from origin and empty size)",
    ],
}

for _p in PROPS.values():
    _p.setdefault("trusted_base", COMMON_TRUSTED)
    _p.setdefault("explanation", _p["level_text"])

NOT_APPLICABLE = {
    "C01": "monolithic TerminalRenderer::frame over trait objects/HashMap/Arc; the property needs a terminal screen model as ghost state over whole histories; no callee carries it",
    "C03": "relational over read schedules of a run-time-built DFA + SmallVec + boxed matchers; tokeniser half quantifies over NFA::compile; outside Verus and intractable for CBMC",
    "C12": "single function mixing f32 quantisation, HashMap iteration order, LRU and core::fmt; property defined through a sixel interpreter; nothing smaller carries a contract",
    "C15": "soundness of Thompson/power-set construction over BTreeMap/BTreeSet/Rc; no specs in Verus, intractable in CBMC",
    "C17": "threads, signals, select, termios, Drop ordering - no concurrency/OS model in either verifier",
    "C18": "recursive BTreeMap trie via entry/closure APIs over all histories; str parsers - outside both verifiers",
    "C19": "serde visitors / serde_json / str formatting and parsing - outside both verifiers",
}
